//! Error-object construction is not the subject: `anyhow!` yields a zero-sized std error (message dropped).
#[derive(Debug)]
pub struct Error;
impl std::fmt::Display for Error {
    fn fmt(&self, f: &mut std::fmt::Formatter<'_>) -> std::fmt::Result { f.write_str("error") }
}
impl std::error::Error for Error {}
#[macro_export]
macro_rules! anyhow { ($($t:tt)*) => { $crate::Error }; }
