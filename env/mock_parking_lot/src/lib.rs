//! Single-threaded stand-in for parking_lot::Mutex (Kani is sequential): a RefCell.
use std::cell::{RefCell, RefMut};
use std::ops::{Deref, DerefMut};

#[derive(Debug, Default)]
pub struct Mutex<T>(RefCell<T>);
pub struct MutexGuard<'a, T>(RefMut<'a, T>);
pub struct MappedMutexGuard<'a, T>(RefMut<'a, T>);

impl<T> Mutex<T> {
    pub fn new(t: T) -> Self { Mutex(RefCell::new(t)) }
    pub fn lock(&self) -> MutexGuard<'_, T> { MutexGuard(self.0.borrow_mut()) }
}
impl<'a, T> MutexGuard<'a, T> {
    pub fn try_map<U, F>(s: Self, f: F) -> Result<MappedMutexGuard<'a, U>, Self>
    where F: FnOnce(&mut T) -> Option<&mut U> {
        match RefMut::filter_map(s.0, f) { Ok(m) => Ok(MappedMutexGuard(m)), Err(orig) => Err(MutexGuard(orig)) }
    }
}
impl<T> Deref for MutexGuard<'_, T> { type Target = T; fn deref(&self) -> &T { &self.0 } }
impl<T> DerefMut for MutexGuard<'_, T> { fn deref_mut(&mut self) -> &mut T { &mut self.0 } }
impl<T> Deref for MappedMutexGuard<'_, T> { type Target = T; fn deref(&self) -> &T { &self.0 } }
impl<T> DerefMut for MappedMutexGuard<'_, T> { fn deref_mut(&mut self) -> &mut T { &mut self.0 } }
