//! Verification models of the std containers ggrs uses as finite maps/sets.
//! Association lists over `Vec`: same API subset and map semantics; iteration order is
//! insertion order, optionally permuted nondeterministically (cfg ggrs_verif_permute).
#![allow(dead_code)]
use std::fmt;

#[derive(Clone)]
pub struct HashMap<K, V> {
    items: Vec<(K, V)>,
}

impl<K, V> Default for HashMap<K, V> {
    fn default() -> Self { Self { items: Vec::new() } }
}

impl<K: fmt::Debug, V: fmt::Debug> fmt::Debug for HashMap<K, V> {
    fn fmt(&self, f: &mut fmt::Formatter<'_>) -> fmt::Result { f.write_str("HashMap") }
}

#[cfg(not(ggrs_verif_permute))]
pub struct Iter<'a, K, V>(std::slice::Iter<'a, (K, V)>);
#[cfg(not(ggrs_verif_permute))]
impl<'a, K, V> Iterator for Iter<'a, K, V> {
    type Item = (&'a K, &'a V);
    fn next(&mut self) -> Option<(&'a K, &'a V)> { match self.0.next() { Some((k, v)) => Some((k, v)), None => None } }
}
#[cfg(not(ggrs_verif_permute))]
pub struct Values<'a, K, V>(std::slice::Iter<'a, (K, V)>);
#[cfg(not(ggrs_verif_permute))]
impl<'a, K, V> Iterator for Values<'a, K, V> {
    type Item = &'a V;
    fn next(&mut self) -> Option<&'a V> { match self.0.next() { Some((_, v)) => Some(v), None => None } }
}
#[cfg(not(ggrs_verif_permute))]
pub struct ValuesMut<'a, K, V>(std::slice::IterMut<'a, (K, V)>);
#[cfg(not(ggrs_verif_permute))]
impl<'a, K, V> Iterator for ValuesMut<'a, K, V> {
    type Item = &'a mut V;
    fn next(&mut self) -> Option<&'a mut V> { match self.0.next() { Some((_, v)) => Some(v), None => None } }
}
#[cfg(ggrs_verif_permute)]
pub struct Iter<'a, K, V>(std::vec::IntoIter<(&'a K, &'a V)>);
#[cfg(ggrs_verif_permute)]
impl<'a, K, V> Iterator for Iter<'a, K, V> {
    type Item = (&'a K, &'a V);
    fn next(&mut self) -> Option<(&'a K, &'a V)> { self.0.next() }
}
#[cfg(ggrs_verif_permute)]
pub struct Values<'a, K, V>(std::vec::IntoIter<&'a V>);
#[cfg(ggrs_verif_permute)]
impl<'a, K, V> Iterator for Values<'a, K, V> {
    type Item = &'a V;
    fn next(&mut self) -> Option<&'a V> { self.0.next() }
}
#[cfg(ggrs_verif_permute)]
pub struct ValuesMut<'a, K, V>(std::vec::IntoIter<&'a mut V>);
#[cfg(ggrs_verif_permute)]
impl<'a, K, V> Iterator for ValuesMut<'a, K, V> {
    type Item = &'a mut V;
    fn next(&mut self) -> Option<&'a mut V> { self.0.next() }
}
pub struct Keys<'a, K, V>(Iter<'a, K, V>);
impl<'a, K, V> Iterator for Keys<'a, K, V> {
    type Item = &'a K;
    fn next(&mut self) -> Option<&'a K> { self.0.next().map(|(k, _)| k) }
}
impl<'a, K: fmt::Debug, V> fmt::Debug for Keys<'a, K, V> {
    fn fmt(&self, f: &mut fmt::Formatter<'_>) -> fmt::Result { f.write_str("Keys") }
}

fn permute<T>(v: &mut Vec<T>) {
    #[cfg(all(kani, ggrs_verif_permute))]
    {
        let n = v.len();
        let mut i = 0;
        while i + 1 < n {
            let mut j = 0;
            while j + 1 < n - i {
                if kani::any() { v.swap(j, j + 1); }
                j += 1;
            }
            i += 1;
        }
    }
    let _ = v;
}

impl<K: PartialEq, V> HashMap<K, V> {
    pub fn new() -> Self { Self { items: Vec::new() } }
    pub fn len(&self) -> usize { self.items.len() }
    pub fn is_empty(&self) -> bool { self.items.is_empty() }
    pub fn clear(&mut self) { self.items.clear() }
    fn pos(&self, k: &K) -> Option<usize> {
        let mut i = 0;
        while i < self.items.len() {
            if self.items[i].0 == *k { return Some(i); }
            i += 1;
        }
        None
    }
    pub fn insert(&mut self, k: K, v: V) -> Option<V> {
        match self.pos(&k) {
            Some(i) => Some(std::mem::replace(&mut self.items[i].1, v)),
            None => { self.items.push((k, v)); None }
        }
    }
    pub fn get(&self, k: &K) -> Option<&V> { self.pos(k).map(|i| &self.items[i].1) }
    pub fn get_mut(&mut self, k: &K) -> Option<&mut V> {
        match self.pos(k) { Some(i) => Some(&mut self.items[i].1), None => None }
    }
    pub fn contains_key(&self, k: &K) -> bool { self.pos(k).is_some() }
    pub fn remove(&mut self, k: &K) -> Option<V> { self.pos(k).map(|i| self.items.remove(i).1) }
    pub fn remove_entry(&mut self, k: &K) -> Option<(K, V)> { self.pos(k).map(|i| self.items.remove(i)) }
    pub fn retain<F: FnMut(&K, &mut V) -> bool>(&mut self, mut f: F) {
        self.items.retain_mut(|(k, v)| f(k, v));
    }
    #[cfg(not(ggrs_verif_permute))]
    pub fn iter(&self) -> Iter<'_, K, V> { Iter(self.items.iter()) }
    #[cfg(not(ggrs_verif_permute))]
    pub fn keys(&self) -> Keys<'_, K, V> { Keys(self.iter()) }
    #[cfg(not(ggrs_verif_permute))]
    pub fn values(&self) -> Values<'_, K, V> { Values(self.items.iter()) }
    #[cfg(not(ggrs_verif_permute))]
    pub fn values_mut(&mut self) -> ValuesMut<'_, K, V> { ValuesMut(self.items.iter_mut()) }

    #[cfg(ggrs_verif_permute)]
    pub fn iter(&self) -> Iter<'_, K, V> {
        let mut v: Vec<(&K, &V)> = Vec::with_capacity(self.items.len());
        for (k, val) in self.items.iter() { v.push((k, val)); }
        permute(&mut v);
        Iter(v.into_iter())
    }
    #[cfg(ggrs_verif_permute)]
    pub fn keys(&self) -> Keys<'_, K, V> { Keys(self.iter()) }
    #[cfg(ggrs_verif_permute)]
    pub fn values(&self) -> Values<'_, K, V> {
        let mut v: Vec<&V> = Vec::with_capacity(self.items.len());
        for (_, val) in self.items.iter() { v.push(val); }
        permute(&mut v);
        Values(v.into_iter())
    }
    #[cfg(ggrs_verif_permute)]
    pub fn values_mut(&mut self) -> ValuesMut<'_, K, V> {
        let mut v: Vec<&mut V> = Vec::with_capacity(self.items.len());
        for (_, val) in self.items.iter_mut() { v.push(val); }
        permute(&mut v);
        ValuesMut(v.into_iter())
    }
    pub fn entry(&mut self, k: K) -> Entry<'_, K, V> { Entry { map: self, key: k } }
}

pub struct Entry<'a, K, V> { map: &'a mut HashMap<K, V>, key: K }
impl<'a, K: PartialEq, V> Entry<'a, K, V> {
    pub fn or_insert_with<F: FnOnce() -> V>(self, f: F) -> &'a mut V {
        let i = match self.map.pos(&self.key) {
            Some(i) => i,
            None => { self.map.items.push((self.key, f())); self.map.items.len() - 1 }
        };
        &mut self.map.items[i].1
    }
    pub fn or_default(self) -> &'a mut V where V: Default { self.or_insert_with(V::default) }
}

impl<'a, K: PartialEq, V> IntoIterator for &'a HashMap<K, V> {
    type Item = (&'a K, &'a V);
    type IntoIter = Iter<'a, K, V>;
    fn into_iter(self) -> Self::IntoIter { self.iter() }
}
impl<K: PartialEq, V> IntoIterator for HashMap<K, V> {
    type Item = (K, V);
    type IntoIter = std::vec::IntoIter<(K, V)>;
    fn into_iter(self) -> Self::IntoIter { let mut v = self.items; permute(&mut v); v.into_iter() }
}

#[derive(Clone, Default)]
pub struct HashSet<K> { items: Vec<K> }
impl<K: PartialEq> HashSet<K> {
    pub fn new() -> Self { Self { items: Vec::new() } }
    pub fn len(&self) -> usize { self.items.len() }
    pub fn insert(&mut self, k: K) -> bool {
        if self.items.iter().any(|x| *x == k) { false } else { self.items.push(k); true }
    }
    pub fn remove(&mut self, k: &K) -> bool {
        let mut i = 0;
        while i < self.items.len() {
            if self.items[i] == *k { self.items.remove(i); return true; }
            i += 1;
        }
        false
    }
}

/// Ordered map: association list kept sorted by key.
#[derive(Clone)]
pub struct BTreeMap<K, V> { items: Vec<(K, V)> }
impl<K, V> Default for BTreeMap<K, V> { fn default() -> Self { Self { items: Vec::new() } } }
impl<K: Ord, V> BTreeMap<K, V> {
    pub fn new() -> Self { Self { items: Vec::new() } }
    pub fn len(&self) -> usize { self.items.len() }
    fn pos(&self, k: &K) -> Result<usize, usize> {
        let mut i = 0;
        while i < self.items.len() {
            if self.items[i].0 == *k { return Ok(i); }
            if self.items[i].0 > *k { return Err(i); }
            i += 1;
        }
        Err(i)
    }
    pub fn get(&self, k: &K) -> Option<&V> { match self.pos(k) { Ok(i) => Some(&self.items[i].1), Err(_) => None } }
    pub fn remove(&mut self, k: &K) -> Option<V> { match self.pos(k) { Ok(i) => Some(self.items.remove(i).1), Err(_) => None } }
    pub fn iter(&self) -> impl Iterator<Item = (&K, &V)> { self.items.iter().map(|(k, v)| (k, v)) }
    pub fn entry(&mut self, k: K) -> BEntry<'_, K, V> { BEntry { map: self, key: k } }
}
pub struct BEntry<'a, K, V> { map: &'a mut BTreeMap<K, V>, key: K }
impl<'a, K: Ord, V> BEntry<'a, K, V> {
    pub fn or_default(self) -> &'a mut V where V: Default {
        let i = match self.map.pos(&self.key) {
            Ok(i) => i,
            Err(i) => { self.map.items.insert(i, (self.key, V::default())); i }
        };
        &mut self.map.items[i].1
    }
}
