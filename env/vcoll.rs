//! Verification models of the std containers ggrs uses as finite maps/sets (encoding rewrite R1).
//!
//! Finite-map semantics over a fixed array of CAP slots `[Option<(K, V)>; CAP]` stored inline (no
//! heap): `remove`/`retain` clear a slot, `insert` of a new key takes the first free slot. Every
//! slot is read and written at a *concrete* index under a (possibly symbolic) guard, so the model
//! checker sees neither a `memmove` with a symbolic length nor a write at a symbolic offset (what
//! makes `Vec::remove`/`retain` and the real hash/tree maps intractable for CBMC). Exceeding CAP
//! entries panics with "vcoll capacity" - the runner reports that as an encoding limit. Iteration order is slot order -
//! an arbitrary but fixed order, as for a hash map with a fixed seed - or, under
//! `--cfg ggrs_verif_permute`, a permutation chosen by the solver (sound over-approximation of
//! every hash seed). `BTreeMap` iterates in ascending key order by selection.
#![allow(dead_code)]
use std::fmt;

pub const CAP: usize = 8;
const PRESIZE: usize = CAP;

/// One slot. Normally the entry is stored inline; under `--cfg vcoll_boxed` it is boxed, which hides
/// the niches of K/V from the layout of every type that contains a map (Kani 0.68 has an internal
/// compiler error on enums whose discriminant lives in a `Vec` capacity niche, e.g.
/// `Result<SessionBuilder<_>, GgrsError>`; only the builder build uses the boxed variant).
#[cfg(not(vcoll_boxed))]
#[derive(Clone)]
pub struct Slot<K, V>(Option<(K, V)>);
#[cfg(vcoll_boxed)]
#[derive(Clone)]
pub struct Slot<K, V>(Option<Box<(K, V)>>);

impl<K, V> Slot<K, V> {
    const EMPTY: Self = Slot(None);
    fn is_none(&self) -> bool {
        self.0.is_none()
    }
    #[cfg(not(vcoll_boxed))]
    fn get(&self) -> Option<(&K, &V)> {
        match &self.0 {
            Some((k, v)) => Some((k, v)),
            None => None,
        }
    }
    #[cfg(vcoll_boxed)]
    fn get(&self) -> Option<(&K, &V)> {
        match &self.0 {
            Some(b) => Some((&b.0, &b.1)),
            None => None,
        }
    }
    #[cfg(not(vcoll_boxed))]
    fn get_mut(&mut self) -> Option<(&K, &mut V)> {
        match &mut self.0 {
            Some((k, v)) => Some((&*k, v)),
            None => None,
        }
    }
    #[cfg(vcoll_boxed)]
    fn get_mut(&mut self) -> Option<(&K, &mut V)> {
        match &mut self.0 {
            Some(b) => {
                let (k, v) = &mut **b;
                Some((&*k, v))
            }
            None => None,
        }
    }
    #[cfg(not(vcoll_boxed))]
    fn put(&mut self, kv: (K, V)) -> Option<(K, V)> {
        self.0.replace(kv)
    }
    #[cfg(vcoll_boxed)]
    fn put(&mut self, kv: (K, V)) -> Option<(K, V)> {
        self.0.replace(Box::new(kv)).map(|b| *b)
    }
    #[cfg(not(vcoll_boxed))]
    fn take(&mut self) -> Option<(K, V)> {
        self.0.take()
    }
    #[cfg(vcoll_boxed)]
    fn take(&mut self) -> Option<(K, V)> {
        self.0.take().map(|b| *b)
    }
}

/// The slot array. Normally the plain inline array. Two alternative representations hide the niches of K/V (e.g. the
/// 128-bit tag of an `Option<u128>` inside an endpoint) from the layout of every type that contains a map, because
/// Kani 0.68 crashes (rvalue.rs:1009, `u64::try_from(niche_start)`) when an enum such as
/// `Result<SessionBuilder<_>, GgrsError>` keeps its discriminant in a 128-bit niche:
///  * `--cfg vcoll_boxmap`: one heap box per map (simple, but CBMC does not constant-fold heap state: slow);
///  * `--cfg vcoll_hideniche` (builder build): still inline, wrapped in `MaybeUninit` (a union has no niche). The
///    array is initialised at construction and stays initialised; the three `unsafe` blocks below only assert that.
#[cfg(not(any(vcoll_boxmap, vcoll_hideniche)))]
type Slots<K, V> = [Slot<K, V>; CAP];
#[cfg(vcoll_boxmap)]
type Slots<K, V> = Box<[Slot<K, V>; CAP]>;
#[cfg(vcoll_hideniche)]
pub struct Slots<K, V>(std::mem::MaybeUninit<[Slot<K, V>; CAP]>);
#[cfg(vcoll_hideniche)]
#[allow(unsafe_code)]
mod hidden {
    use super::{Slot, Slots, CAP};
    impl<K, V> std::ops::Deref for Slots<K, V> {
        type Target = [Slot<K, V>; CAP];
        fn deref(&self) -> &Self::Target {
            unsafe { self.0.assume_init_ref() }
        }
    }
    impl<K, V> std::ops::DerefMut for Slots<K, V> {
        fn deref_mut(&mut self) -> &mut Self::Target {
            unsafe { self.0.assume_init_mut() }
        }
    }
    impl<K, V> Drop for Slots<K, V> {
        fn drop(&mut self) {
            unsafe { self.0.assume_init_drop() }
        }
    }
    impl<K, V> Slots<K, V> {
        pub(super) fn empty() -> Self {
            Slots(std::mem::MaybeUninit::new([const { Slot::EMPTY }; CAP]))
        }
        pub(super) fn into_array(mut self) -> [Slot<K, V>; CAP] {
            std::mem::replace(&mut *self, [const { Slot::EMPTY }; CAP])
        }
    }
    impl<K: Clone, V: Clone> Clone for Slots<K, V> {
        fn clone(&self) -> Self {
            Slots(std::mem::MaybeUninit::new((**self).clone()))
        }
    }
}

#[derive(Clone)]
pub struct HashMap<K, V> {
    slots: Slots<K, V>,
    count: usize,
}

impl<K, V> Default for HashMap<K, V> {
    #[cfg(not(any(vcoll_boxmap, vcoll_hideniche)))]
    fn default() -> Self {
        Self { slots: [const { Slot::EMPTY }; CAP], count: 0 }
    }
    #[cfg(vcoll_boxmap)]
    fn default() -> Self {
        Self { slots: Box::new([const { Slot::EMPTY }; CAP]), count: 0 }
    }
    #[cfg(vcoll_hideniche)]
    fn default() -> Self {
        Self { slots: Slots::empty(), count: 0 }
    }
}

impl<K: fmt::Debug, V: fmt::Debug> fmt::Debug for HashMap<K, V> {
    fn fmt(&self, f: &mut fmt::Formatter<'_>) -> fmt::Result {
        f.write_str("HashMap")
    }
}

fn permute<T>(v: &mut Vec<T>) {
    #[cfg(all(kani, ggrs_verif_permute))]
    {
        let n = v.len();
        let mut i = 0;
        while i + 1 < n {
            let mut j = 0;
            while j + 1 < n - i {
                if kani::any() {
                    v.swap(j, j + 1);
                }
                j += 1;
            }
            i += 1;
        }
    }
    let _ = v;
}

// ---------------------------------------------------------------- iterators (slot order)
#[cfg(not(ggrs_verif_permute))]
pub struct Iter<'a, K, V> {
    slots: &'a [Slot<K, V>; CAP],
    i: usize,
}
#[cfg(not(ggrs_verif_permute))]
impl<'a, K, V> Iterator for Iter<'a, K, V> {
    type Item = (&'a K, &'a V);
    fn next(&mut self) -> Option<(&'a K, &'a V)> {
        // index-based on purpose: slice iterators compare raw pointers, which is costly for CBMC
        while self.i < CAP {
            let j = self.i;
            self.i += 1;
            if let Some(kv) = self.slots[j].get() {
                return Some(kv);
            }
        }
        None
    }
}
#[cfg(not(ggrs_verif_permute))]
pub struct ValuesMut<'a, K, V>(&'a mut [Slot<K, V>]);
#[cfg(not(ggrs_verif_permute))]
impl<'a, K, V> Iterator for ValuesMut<'a, K, V> {
    type Item = &'a mut V;
    fn next(&mut self) -> Option<&'a mut V> {
        loop {
            let rest = std::mem::take(&mut self.0);
            match rest.split_first_mut() {
                Some((first, tail)) => {
                    self.0 = tail;
                    if let Some((_, v)) = first.get_mut() {
                        return Some(v);
                    }
                }
                None => return None,
            }
        }
    }
}
#[cfg(ggrs_verif_permute)]
pub struct Iter<'a, K, V>(std::vec::IntoIter<(&'a K, &'a V)>);
#[cfg(ggrs_verif_permute)]
impl<'a, K, V> Iterator for Iter<'a, K, V> {
    type Item = (&'a K, &'a V);
    fn next(&mut self) -> Option<(&'a K, &'a V)> {
        self.0.next()
    }
}
#[cfg(ggrs_verif_permute)]
pub struct ValuesMut<'a, K, V>(std::vec::IntoIter<&'a mut V>, std::marker::PhantomData<&'a K>);
#[cfg(ggrs_verif_permute)]
impl<'a, K, V> Iterator for ValuesMut<'a, K, V> {
    type Item = &'a mut V;
    fn next(&mut self) -> Option<&'a mut V> {
        self.0.next()
    }
}
pub struct Keys<'a, K, V>(Iter<'a, K, V>);
impl<'a, K, V> Iterator for Keys<'a, K, V> {
    type Item = &'a K;
    fn next(&mut self) -> Option<&'a K> {
        self.0.next().map(|(k, _)| k)
    }
}
impl<'a, K: fmt::Debug, V> fmt::Debug for Keys<'a, K, V> {
    fn fmt(&self, f: &mut fmt::Formatter<'_>) -> fmt::Result {
        f.write_str("Keys")
    }
}
pub struct Values<'a, K, V>(Iter<'a, K, V>);
impl<'a, K, V> Iterator for Values<'a, K, V> {
    type Item = &'a V;
    fn next(&mut self) -> Option<&'a V> {
        self.0.next().map(|(_, v)| v)
    }
}
pub struct IntoIter<K, V>(std::vec::IntoIter<Slot<K, V>>);
impl<K, V> Iterator for IntoIter<K, V> {
    type Item = (K, V);
    fn next(&mut self) -> Option<(K, V)> {
        loop {
            match self.0.next() {
                Some(mut slot) => {
                    if let Some(kv) = slot.take() {
                        return Some(kv);
                    }
                }
                None => return None,
            }
        }
    }
}

impl<K, V> HashMap<K, V> {
    fn slots_ref(&self) -> &[Slot<K, V>; CAP] {
        &self.slots
    }
}

impl<K: PartialEq, V> HashMap<K, V> {
    pub fn new() -> Self {
        Self::default()
    }
    pub fn len(&self) -> usize {
        self.count
    }
    pub fn is_empty(&self) -> bool {
        self.count == 0
    }
    pub fn clear(&mut self) {
        let mut i = 0;
        while i < CAP {
            self.slots[i].take();
            i += 1;
        }
        self.count = 0;
    }
    fn matches(&self, i: usize, k: &K) -> bool {
        match self.slots[i].get() {
            Some((kk, _)) => *kk == *k,
            None => false,
        }
    }
    pub fn insert(&mut self, k: K, v: V) -> Option<V> {
        let mut i = 0;
        while i < CAP {
            if self.matches(i, &k) {
                return match self.slots[i].put((k, v)) {
                    Some((_, old)) => Some(old),
                    None => None,
                };
            }
            i += 1;
        }
        let mut i = 0;
        while i < CAP {
            if self.slots[i].is_none() {
                self.slots[i].put((k, v));
                self.count += 1;
                return None;
            }
            i += 1;
        }
        panic!("vcoll capacity exceeded");
    }
    pub fn get(&self, k: &K) -> Option<&V> {
        let mut i = 0;
        while i < CAP {
            if let Some((kk, v)) = self.slots[i].get() {
                if *kk == *k {
                    return Some(v);
                }
            }
            i += 1;
        }
        None
    }
    pub fn get_mut(&mut self, k: &K) -> Option<&mut V> {
        let mut i = 0;
        while i < CAP {
            if self.matches(i, k) {
                return match self.slots[i].get_mut() {
                    Some((_, v)) => Some(v),
                    None => None,
                };
            }
            i += 1;
        }
        None
    }
    pub fn contains_key(&self, k: &K) -> bool {
        let mut i = 0;
        while i < CAP {
            if self.matches(i, k) {
                return true;
            }
            i += 1;
        }
        false
    }
    pub fn remove_entry(&mut self, k: &K) -> Option<(K, V)> {
        let mut i = 0;
        while i < CAP {
            if self.matches(i, k) {
                self.count -= 1;
                return self.slots[i].take();
            }
            i += 1;
        }
        None
    }
    pub fn remove(&mut self, k: &K) -> Option<V> {
        self.remove_entry(k).map(|(_, v)| v)
    }
    pub fn retain<F: FnMut(&K, &mut V) -> bool>(&mut self, mut f: F) {
        let mut i = 0;
        while i < CAP {
            let keep = match self.slots[i].get_mut() {
                Some((k, v)) => f(k, v),
                None => true,
            };
            if !keep {
                self.slots[i].take();
                self.count -= 1;
            }
            i += 1;
        }
    }
    #[cfg(not(ggrs_verif_permute))]
    pub fn iter(&self) -> Iter<'_, K, V> {
        Iter { slots: &*self.slots_ref(), i: 0 }
    }
    #[cfg(not(ggrs_verif_permute))]
    pub fn values_mut(&mut self) -> ValuesMut<'_, K, V> {
        ValuesMut(&mut self.slots[..])
    }
    #[cfg(ggrs_verif_permute)]
    pub fn iter(&self) -> Iter<'_, K, V> {
        let mut v: Vec<(&K, &V)> = Vec::with_capacity(PRESIZE);
        for s in self.slots.iter() {
            if let Some((k, val)) = s.get() {
                v.push((k, val));
            }
        }
        permute(&mut v);
        Iter(v.into_iter())
    }
    #[cfg(ggrs_verif_permute)]
    pub fn values_mut(&mut self) -> ValuesMut<'_, K, V> {
        let mut v: Vec<&mut V> = Vec::with_capacity(PRESIZE);
        for s in self.slots.iter_mut() {
            if let Some((_, val)) = s.get_mut() {
                v.push(val);
            }
        }
        permute(&mut v);
        ValuesMut(v.into_iter(), std::marker::PhantomData)
    }
    pub fn keys(&self) -> Keys<'_, K, V> {
        Keys(self.iter())
    }
    pub fn values(&self) -> Values<'_, K, V> {
        Values(self.iter())
    }
    pub fn entry(&mut self, k: K) -> Entry<'_, K, V> {
        Entry { map: self, key: k }
    }
}

pub struct Entry<'a, K, V> {
    map: &'a mut HashMap<K, V>,
    key: K,
}
impl<'a, K: PartialEq, V> Entry<'a, K, V> {
    pub fn or_insert_with<F: FnOnce() -> V>(self, f: F) -> &'a mut V {
        if !self.map.contains_key(&self.key) {
            let v = f();
            // insert cannot hit an existing key here
            let mut i = 0;
            while i < CAP {
                if self.map.slots[i].is_none() {
                    break;
                }
                i += 1;
            }
            if i == CAP {
                panic!("vcoll capacity exceeded");
            }
            self.map.slots[i].put((self.key, v));
            self.map.count += 1;
            return match self.map.slots[i].get_mut() {
                Some((_, v)) => v,
                None => unreachable!(),
            };
        }
        match self.map.get_mut(&self.key) {
            Some(v) => v,
            None => unreachable!(),
        }
    }
    pub fn or_default(self) -> &'a mut V
    where
        V: Default,
    {
        self.or_insert_with(V::default)
    }
}

impl<'a, K: PartialEq, V> IntoIterator for &'a HashMap<K, V> {
    type Item = (&'a K, &'a V);
    type IntoIter = Iter<'a, K, V>;
    fn into_iter(self) -> Self::IntoIter {
        self.iter()
    }
}
impl<K: PartialEq, V> IntoIterator for HashMap<K, V> {
    type Item = (K, V);
    type IntoIter = IntoIter<K, V>;
    fn into_iter(self) -> Self::IntoIter {
        let mut v: Vec<Slot<K, V>> = Vec::with_capacity(CAP);
        #[cfg(not(any(vcoll_boxmap, vcoll_hideniche)))]
        let arr = self.slots;
        #[cfg(vcoll_boxmap)]
        let arr = *self.slots;
        #[cfg(vcoll_hideniche)]
        let arr = self.slots.into_array();
        for s in arr {
            v.push(s);
        }
        permute(&mut v);
        IntoIter(v.into_iter())
    }
}

// ---------------------------------------------------------------- HashSet
#[derive(Clone)]
pub struct HashSet<K> {
    inner: HashMap<K, ()>,
}
impl<K> Default for HashSet<K> {
    fn default() -> Self {
        Self { inner: HashMap::default() }
    }
}
impl<K: PartialEq> HashSet<K> {
    pub fn new() -> Self {
        Self::default()
    }
    pub fn len(&self) -> usize {
        self.inner.len()
    }
    pub fn contains(&self, k: &K) -> bool {
        self.inner.contains_key(k)
    }
    pub fn insert(&mut self, k: K) -> bool {
        if self.inner.contains_key(&k) {
            return false;
        }
        self.inner.insert(k, ());
        true
    }
    pub fn remove(&mut self, k: &K) -> bool {
        self.inner.remove_entry(k).is_some()
    }
    pub fn clear(&mut self) {
        self.inner.clear()
    }
}

// ---------------------------------------------------------------- BTreeMap (ascending iteration)
#[derive(Clone)]
pub struct BTreeMap<K, V> {
    inner: HashMap<K, V>,
}
impl<K, V> Default for BTreeMap<K, V> {
    fn default() -> Self {
        Self { inner: HashMap::default() }
    }
}
/// Ascending-order iterator by selection: each step yields the smallest key greater than the last.
pub struct BIter<'a, K, V> {
    map: &'a HashMap<K, V>,
    last: Option<&'a K>,
}
impl<'a, K: Ord, V> Iterator for BIter<'a, K, V> {
    type Item = (&'a K, &'a V);
    fn next(&mut self) -> Option<(&'a K, &'a V)> {
        let mut best: Option<(&'a K, &'a V)> = None;
        let mut i = 0;
        while i < CAP {
            if let Some((k, v)) = self.map.slots[i].get() {
                let after_last = match self.last {
                    Some(l) => *k > *l,
                    None => true,
                };
                let better = match best {
                    Some((bk, _)) => *k < *bk,
                    None => true,
                };
                if after_last && better {
                    best = Some((k, v));
                }
            }
            i += 1;
        }
        if let Some((k, _)) = best {
            self.last = Some(k);
        }
        best
    }
}
impl<K: Ord, V> BTreeMap<K, V> {
    pub fn new() -> Self {
        Self::default()
    }
    pub fn len(&self) -> usize {
        self.inner.len()
    }
    pub fn is_empty(&self) -> bool {
        self.inner.is_empty()
    }
    pub fn get(&self, k: &K) -> Option<&V> {
        self.inner.get(k)
    }
    pub fn contains_key(&self, k: &K) -> bool {
        self.inner.contains_key(k)
    }
    pub fn insert(&mut self, k: K, v: V) -> Option<V> {
        self.inner.insert(k, v)
    }
    pub fn remove(&mut self, k: &K) -> Option<V> {
        self.inner.remove(k)
    }
    pub fn iter(&self) -> BIter<'_, K, V> {
        BIter { map: &self.inner, last: None }
    }
    pub fn entry(&mut self, k: K) -> Entry<'_, K, V> {
        self.inner.entry(k)
    }
}
