//! Logging is not the subject: every tracing macro expands to nothing (arguments are not evaluated).
#[macro_export] macro_rules! trace { ($($t:tt)*) => {{}}; }
#[macro_export] macro_rules! debug { ($($t:tt)*) => {{}}; }
#[macro_export] macro_rules! info { ($($t:tt)*) => {{}}; }
#[macro_export] macro_rules! warn { ($($t:tt)*) => {{}}; }
#[macro_export] macro_rules! error { ($($t:tt)*) => {{}}; }
