//! Virtual clock standing in for the `instant` crate. `Instant` and `Duration` are microsecond
//! counters (u64): additions and comparisons are plain 64-bit arithmetic for the solver, instead of
//! std's (secs: u64, nanos: u32) with 128-bit conversions. The harness owns "now".
//! API subset = what ggrs uses: Instant::{now, add/sub Duration, comparison}, Duration::{from_millis,
//! from_micros, saturating_sub, as_millis, ==}.
use std::sync::atomic::{AtomicU64, Ordering};

static NOW_US: AtomicU64 = AtomicU64::new(1_000_000_000);

pub fn set_now_ms(ms: u64) { NOW_US.store(ms * 1000, Ordering::Relaxed); }
pub fn now_ms() -> u64 { NOW_US.load(Ordering::Relaxed) / 1000 }

#[derive(Copy, Clone, Debug, PartialEq, Eq, PartialOrd, Ord, Hash, Default)]
pub struct Duration(u64);
impl Duration {
    pub const fn from_millis(ms: u64) -> Self { Duration(ms * 1000) }
    pub const fn from_micros(us: u64) -> Self { Duration(us) }
    pub const fn from_secs(s: u64) -> Self { Duration(s * 1_000_000) }
    pub fn saturating_sub(self, rhs: Duration) -> Duration { Duration(self.0.saturating_sub(rhs.0)) }
    pub fn as_millis(&self) -> u128 { (self.0 / 1000) as u128 }
    pub fn as_micros(&self) -> u128 { self.0 as u128 }
}

#[derive(Copy, Clone, Debug, PartialEq, Eq, PartialOrd, Ord, Hash)]
pub struct Instant(u64);

impl Instant {
    /// harness-only constructors/observers of the virtual clock
    pub fn from_ms(ms: u64) -> Self { Instant(ms * 1000) }
    pub fn as_ms(&self) -> u64 { self.0 / 1000 }
    pub fn now() -> Self { Instant(NOW_US.load(Ordering::Relaxed)) }
    pub fn duration_since(&self, earlier: Instant) -> Duration { Duration(self.0.saturating_sub(earlier.0)) }
    pub fn elapsed(&self) -> Duration { Instant::now().duration_since(*self) }
}
impl std::ops::Add<Duration> for Instant {
    type Output = Instant;
    fn add(self, rhs: Duration) -> Instant { Instant(self.0 + rhs.0) }
}
impl std::ops::Sub<Duration> for Instant {
    type Output = Instant;
    fn sub(self, rhs: Duration) -> Instant { Instant(self.0 - rhs.0) }
}
impl std::ops::Sub<Instant> for Instant {
    type Output = Duration;
    fn sub(self, rhs: Instant) -> Duration { self.duration_since(rhs) }
}
