//! Virtual clock standing in for the `instant` crate: `Instant` is a millisecond counter the harness controls.
use std::sync::atomic::{AtomicU64, Ordering};
pub use std::time::Duration;

static NOW_MS: AtomicU64 = AtomicU64::new(1_000_000);

pub fn set_now_ms(ms: u64) { NOW_MS.store(ms, Ordering::Relaxed); }
pub fn now_ms() -> u64 { NOW_MS.load(Ordering::Relaxed) }

#[derive(Copy, Clone, Debug, PartialEq, Eq, PartialOrd, Ord, Hash)]
pub struct Instant(u64);

impl Instant {
    pub fn now() -> Self { Instant(NOW_MS.load(Ordering::Relaxed)) }
    pub fn duration_since(&self, earlier: Instant) -> Duration { Duration::from_millis(self.0.saturating_sub(earlier.0)) }
    pub fn elapsed(&self) -> Duration { Instant::now().duration_since(*self) }
}
impl std::ops::Add<Duration> for Instant {
    type Output = Instant;
    fn add(self, rhs: Duration) -> Instant { Instant(self.0 + rhs.as_millis() as u64) }
}
impl std::ops::Sub<Duration> for Instant {
    type Output = Instant;
    fn sub(self, rhs: Duration) -> Instant { Instant(self.0 - rhs.as_millis() as u64) }
}
impl std::ops::Sub<Instant> for Instant {
    type Output = Duration;
    fn sub(self, rhs: Instant) -> Duration { self.duration_since(rhs) }
}
