//! Stand-in for `rand::random`: the values come from a tape the harness fills (with `kani::any()`
//! values or constants). Past the end of the tape a counter supplies further distinct values.
//! ggrs only calls `rand::random::<u16>()` (magic) and `rand::random::<u32>()` (sync nonces).
use std::sync::atomic::{AtomicU64, AtomicUsize, Ordering};

pub const TAPE_LEN: usize = 16;
#[allow(clippy::declare_interior_mutable_const)]
const Z: AtomicU64 = AtomicU64::new(0);
static TAPE: [AtomicU64; TAPE_LEN] = [Z; TAPE_LEN];
static FILLED: AtomicUsize = AtomicUsize::new(0);
static CURSOR: AtomicUsize = AtomicUsize::new(0);
static NEXT: AtomicU64 = AtomicU64::new(0x1234_5678);

/// Appends one value to the tape.
pub fn tape_push(v: u64) {
    let n = FILLED.load(Ordering::Relaxed);
    assert!(n < TAPE_LEN);
    TAPE[n].store(v, Ordering::Relaxed);
    FILLED.store(n + 1, Ordering::Relaxed);
}
/// Forgets what was pushed and consumed so far (harnesses call it after constructing their objects).
pub fn tape_reset() {
    FILLED.store(0, Ordering::Relaxed);
    CURSOR.store(0, Ordering::Relaxed);
}
/// Number of values consumed so far.
pub fn tape_cursor() -> usize { CURSOR.load(Ordering::Relaxed) }
pub fn seed(v: u64) { NEXT.store(v, Ordering::Relaxed); }

pub trait FromU64 { fn from_u64(v: u64) -> Self; }
impl FromU64 for u16 { fn from_u64(v: u64) -> Self { v as u16 } }
impl FromU64 for u32 { fn from_u64(v: u64) -> Self { v as u32 } }
impl FromU64 for u64 { fn from_u64(v: u64) -> Self { v } }

pub fn random<T: FromU64>() -> T {
    let c = CURSOR.load(Ordering::Relaxed);
    CURSOR.store(c + 1, Ordering::Relaxed);
    if c < FILLED.load(Ordering::Relaxed) {
        return T::from_u64(TAPE[c].load(Ordering::Relaxed));
    }
    let v = NEXT.load(Ordering::Relaxed);
    NEXT.store(v.wrapping_add(0x9E37_79B9), Ordering::Relaxed);
    T::from_u64(v | 1)
}
