// harness: k_rle_stage_total_len1
// build: codec consts={} files=["network__compression.rs"]
// target: src/network/compression.rs
// module: verif_codec
/// Test generated for harness `network::compression::verif_codec::k_rle_stage_total_len1` 
///
/// Check for `assertion`: "index out of bounds: the length is less than or equal to the given index"
///
/// # Warning
///
/// Concrete playback tests combined with stubs or contracts is highly
/// experimental, and subject to change.
///
/// The original harness has stubs which are not applied to this test.
/// This may cause a mismatch of non-deterministic values if the stub
/// creates any non-deterministic value.
/// The execution path may also differ, which can be used to refine the stub
/// logic.

#[test]
fn kani_concrete_playback_k_rle_stage_total_len1_10968535705296176713() {
    let concrete_vals: Vec<Vec<u8>> = vec![
        // 128
        vec![128],
    ];
    kani::concrete_playback_run(concrete_vals, k_rle_stage_total_len1);
}
