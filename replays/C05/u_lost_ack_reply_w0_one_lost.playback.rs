// harness: u_lost_ack_reply_w0_one_lost
// build: proto consts={"PENDING_OUTPUT_SIZE": 4} files=["network__protocol.rs", "network__protocol@b.rs"]
// target: src/network/protocol.rs
// module: verif_u2
/// Test generated for harness `network::protocol::verif_u2::u_lost_ack_reply_w0_one_lost` 
///
/// Check for `assertion`: ""the retransmission must be answered""
///
/// # Warning
///
/// Concrete playback tests combined with stubs or contracts is highly
/// experimental, and subject to change.
///
/// The original harness has stubs which are not applied to this test.
/// This may cause a mismatch of non-deterministic values if the stub
/// creates any non-deterministic value.
/// The execution path may also differ, which can be used to refine the stub
/// logic.

#[test]
fn kani_concrete_playback_u_lost_ack_reply_w0_one_lost_17820004680094930479() {
    let concrete_vals: Vec<Vec<u8>> = vec![
        // 0
        vec![0, 0, 0, 0],
    ];
    kani::concrete_playback_run(concrete_vals, u_lost_ack_reply_w0_one_lost);
}
