#[cfg(kani)]
pub(crate) mod verif_s {
    //! S — `SyncLayer` contracts (C01, C02, C03, C07): rollback target, input hand-out per player,
    //! confirmed-frame bookkeeping and the saved-state ring.
    use super::*;
    use crate::input_queue::verif_q as vq;
    use crate::verif_common::CfgRL;

    const MAX_FRAME: Frame = 1 << 20;

    /// for the session-level harnesses: move the frame counter without running frames
    pub(crate) fn set_current_frame<T: Config<Input = u8, State = u32>>(sl: &mut SyncLayer<T>, f: Frame) {
        sl.current_frame = f;
    }

    pub(crate) fn set_last_saved<T: Config<Input = u8, State = u32>>(sl: &mut SyncLayer<T>, f: Frame) {
        sl.last_saved_frame = f;
    }
    pub(crate) fn queue_mut<T: Config<Input = u8, State = u32>>(sl: &mut SyncLayer<T>, p: usize) -> &mut InputQueue<T> {
        &mut sl.input_queues[p]
    }
    pub(crate) fn set_last_confirmed<T: Config<Input = u8, State = u32>>(sl: &mut SyncLayer<T>, f: Frame) {
        sl.last_confirmed_frame = f;
    }
    /// install a complete mid-run state (session-level inductive harnesses)
    pub(crate) fn install<T: Config<Input = u8, State = u32>>(
        sl: &mut SyncLayer<T>,
        current: Frame,
        last_confirmed: Frame,
        last_saved: Frame,
        q0: InputQueue<T>,
        q1: InputQueue<T>,
    ) {
        sl.current_frame = current;
        sl.last_confirmed_frame = last_confirmed;
        sl.last_saved_frame = last_saved;
        core::mem::forget(core::mem::replace(&mut sl.input_queues[0], q0));
        core::mem::forget(core::mem::replace(&mut sl.input_queues[1], q1));
    }
    /// three-player variant of `install`
    pub(crate) fn install3<T: Config<Input = u8, State = u32>>(
        sl: &mut SyncLayer<T>,
        current: Frame,
        last_confirmed: Frame,
        last_saved: Frame,
        q0: InputQueue<T>,
        q1: InputQueue<T>,
        q2: InputQueue<T>,
    ) {
        install(sl, current, last_confirmed, last_saved, q0, q1);
        core::mem::forget(core::mem::replace(&mut sl.input_queues[2], q2));
    }
    pub(crate) fn num_cells<T: Config<Input = u8, State = u32>>(sl: &SyncLayer<T>) -> usize {
        sl.saved_states.states.len()
    }
    pub(crate) fn cell_frame<T: Config<Input = u8, State = u32>>(sl: &SyncLayer<T>, i: usize) -> Frame {
        sl.saved_states.states[i].frame()
    }
    pub(crate) fn cell_data<T: Config<Input = u8, State = u32>>(sl: &SyncLayer<T>, i: usize) -> Option<u32> {
        sl.saved_states.states[i].load()
    }
    pub(crate) fn cell_save<T: Config<Input = u8, State = u32>>(sl: &SyncLayer<T>, i: usize, frame: Frame, data: u32) {
        sl.saved_states.states[i].save(frame, Some(data), Some(data as u128));
    }
    pub(crate) fn queue<T: Config<Input = u8, State = u32>>(sl: &SyncLayer<T>, p: usize) -> &InputQueue<T> {
        &sl.input_queues[p]
    }
    pub(crate) fn last_confirmed<T: Config<Input = u8, State = u32>>(sl: &SyncLayer<T>) -> Frame {
        sl.last_confirmed_frame
    }

    fn any_frame_or_null() -> Frame {
        let f: Frame = kani::any();
        kani::assume(f >= NULL_FRAME && f < MAX_FRAME);
        f
    }

    fn layer(num_players: usize, w: usize) -> SyncLayer<CfgRL> {
        SyncLayer::<CfgRL>::new(num_players, w)
    }

    /// check_simulation_consistency returns the EARLIEST of the pending disconnect frame and every
    /// queue's first mispredicted frame (NULL if none) - the frame a rollback must start from.
    #[kani::proof]
    #[kani::unwind(10)]
    fn s_consistency_is_min() {
        let mut sl = layer(3, 2);
        let f0 = any_frame_or_null();
        let f1 = any_frame_or_null();
        let f2 = any_frame_or_null();
        let d = any_frame_or_null();
        vq::set_fi(&mut sl.input_queues[0], f0);
        vq::set_fi(&mut sl.input_queues[1], f1);
        vq::set_fi(&mut sl.input_queues[2], f2);
        let r = sl.check_simulation_consistency(d);
        let all = [d, f0, f1, f2];
        let mut want = NULL_FRAME;
        let mut i = 0;
        while i < 4 {
            if all[i] != NULL_FRAME && (want == NULL_FRAME || all[i] < want) {
                want = all[i];
            }
            i += 1;
        }
        assert!(r == want);
        kani::cover!(d != NULL_FRAME && f1 != NULL_FRAME && f1 < d, "misprediction earlier than the disconnect frame");
        kani::cover!(d != NULL_FRAME && f1 != NULL_FRAME && d < f1, "disconnect frame earlier than the misprediction");
        kani::cover!(f0 != NULL_FRAME && f2 != NULL_FRAME && f2 < f0, "later player has the earlier misprediction");
        core::mem::forget(sl);
    }

    /// two queues holding frames 0..=2 with symbolic values (delay 0)
    fn layer_with_inputs(w: usize, vals: &[[u8; 3]; 2]) -> SyncLayer<CfgRL> {
        let mut sl = layer(2, w);
        let mut p = 0;
        while p < 2 {
            let mut f = 0;
            while f < 3 {
                sl.input_queues[p].add_input(PlayerInput::new(f as Frame, vals[p][f]));
                f += 1;
            }
            p += 1;
        }
        sl
    }

    /// synchronized_inputs: a player is handed (default, Disconnected) iff it is disconnected as of
    /// a frame EARLIER than the requested one; otherwise its queue's input: the stored value as
    /// Confirmed when received, the repeat-last prediction as Predicted when not.
    #[kani::proof]
    #[kani::unwind(10)]
    fn s_synchronized_inputs_contract() {
        let vals: [[u8; 3]; 2] = kani::any();
        let mut sl = layer_with_inputs(2, &vals);
        let cur: Frame = kani::any();
        kani::assume(cur >= 0 && cur <= 4);
        sl.current_frame = cur;
        let cs = [
            ConnectionStatus { disconnected: kani::any(), last_frame: any_frame_or_null() },
            ConnectionStatus { disconnected: kani::any(), last_frame: any_frame_or_null() },
        ];
        let out = sl.synchronized_inputs(&cs);
        assert!(out.len() == 2);
        let mut p = 0;
        while p < 2 {
            let (v, st) = out[p];
            if cs[p].disconnected && cs[p].last_frame < cur {
                assert!(st == InputStatus::Disconnected && v == 0);
            } else if cur <= 2 {
                assert!(st == InputStatus::Confirmed && v == vals[p][cur as usize]);
            } else {
                assert!(st == InputStatus::Predicted && v == vals[p][2]);
            }
            p += 1;
        }
        kani::cover!(cs[1].disconnected && cs[1].last_frame == cur && cur <= 2, "disconnected, but its last real input is for this very frame");
        kani::cover!(cs[0].disconnected && cs[0].last_frame < cur, "disconnected earlier");
        core::mem::forget(out);
        core::mem::forget(sl);
    }

    /// confirmed_inputs (spectator feed and lockstep): blank input exactly for players disconnected
    /// as of an earlier frame, otherwise the stored input of that frame.
    #[kani::proof]
    #[kani::unwind(10)]
    fn s_confirmed_inputs_contract() {
        let vals: [[u8; 3]; 2] = kani::any();
        let sl = layer_with_inputs(2, &vals);
        let f: Frame = kani::any();
        kani::assume(f >= 0 && f <= 2);
        let cs = [
            ConnectionStatus { disconnected: kani::any(), last_frame: any_frame_or_null() },
            ConnectionStatus { disconnected: kani::any(), last_frame: any_frame_or_null() },
        ];
        let out = sl.confirmed_inputs(f, &cs);
        assert!(out.len() == 2);
        let mut p = 0;
        while p < 2 {
            if cs[p].disconnected && cs[p].last_frame < f {
                assert!(out[p].frame == NULL_FRAME && out[p].input == 0);
            } else {
                assert!(out[p].frame == f && out[p].input == vals[p][f as usize]);
            }
            p += 1;
        }
        kani::cover!(cs[1].disconnected && cs[1].last_frame == f, "last real input is for this very frame");
        core::mem::forget(out);
        core::mem::forget(sl);
    }

    /// set_last_confirmed_frame: new value = min(arg, current[, last saved if sparse]); every queue
    /// keeps all frames from (new value - 1) on, so no frame a rollback can still ask for is lost.
    #[kani::proof]
    #[kani::unwind(10)]
    fn s_set_last_confirmed_contract() {
        let vals: [[u8; 3]; 2] = kani::any();
        let mut sl = layer_with_inputs(2, &vals);
        let cur: Frame = kani::any();
        kani::assume(cur >= 0 && cur <= 4);
        sl.current_frame = cur;
        let saved: Frame = kani::any();
        kani::assume(saved >= NULL_FRAME && saved <= cur);
        sl.last_saved_frame = saved;
        let sparse: bool = kani::any();
        let arg: Frame = kani::any();
        kani::assume(arg >= NULL_FRAME && arg <= 2); // confirmed_frame() <= newest input of every connected player
        let mut want = arg;
        if sparse && saved < want {
            want = saved;
        }
        if cur < want {
            want = cur;
        }
        sl.set_last_confirmed_frame(arg, sparse);
        assert!(sl.last_confirmed_frame == want);
        let mut p = 0;
        while p < 2 {
            let q = &sl.input_queues[p];
            assert!(vq::la(q) == 2);
            let keep_from = if want >= 1 { want - 1 } else { 0 };
            // every frame >= keep_from is still in the window and intact
            assert!(vq::tail_frame(q) <= keep_from);
            let mut f = keep_from;
            while f <= 2 {
                assert!(vq::slot(q, f) == (f, vals[p][f as usize]));
                f += 1;
            }
            p += 1;
        }
        kani::cover!(want == 2, "everything but the newest two frames may go");
        kani::cover!(sparse && saved < arg, "capped by the last saved frame");
        core::mem::forget(sl);
    }

    macro_rules! cells_ring {
        ($name:ident, $w:expr) => {
            /// Saved-state ring: after saving w+1 consecutive frames b..=b+w (the most a session can
            /// hold: current frame plus the whole prediction window), each of the w frames that may
            /// still be rolled back to is loadable and yields exactly what was saved for it.
            #[kani::proof]
            #[kani::unwind(8)]
            fn $name() {
                let mut sl = layer(2, $w);
                let b: Frame = kani::any();
                kani::assume(b >= 0 && b < MAX_FRAME);
                sl.current_frame = b;
                let tag: u32 = kani::any();
                let mut i = 0;
                while i <= $w {
                    match sl.save_current_state() {
                        GgrsRequest::SaveGameState { cell, frame } => {
                            assert!(frame == b + i as Frame);
                            cell.save(frame, Some(tag ^ frame as u32), Some(frame as u128));
                            core::mem::forget(cell);
                        }
                        _ => assert!(false),
                    }
                    assert!(sl.last_saved_frame() == b + i as Frame);
                    if i < $w {
                        sl.advance_frame();
                    }
                    i += 1;
                }
                let f: Frame = kani::any();
                kani::assume(f >= b && f < b + $w);
                match sl.load_frame(f) {
                    GgrsRequest::LoadGameState { cell, frame } => {
                        assert!(frame == f && cell.frame() == f);
                        assert!(cell.load() == Some(tag ^ f as u32));
                        assert!(cell.checksum() == Some(f as u128));
                        core::mem::forget(cell);
                    }
                    _ => assert!(false),
                }
                assert!(sl.current_frame() == f);
                kani::cover!(f == b, "oldest frame of the window loaded");
                core::mem::forget(sl);
            }
        };
    }
    cells_ring!(s_cells_ring_w1, 1);
    cells_ring!(s_cells_ring_w2, 2);
    cells_ring!(s_cells_ring_w3, 3);
}
