#[cfg(kani)]
pub(crate) mod verif_u3 {
    //! U (part 3) — handshake, quality reports / network stats, checksum reports
    //! (C05 handshake, C12, C15, C17 nonces, C09, C18).
    use super::verif_u::{mk_ep, MAGIC_LOCAL};
    use super::*;
    use crate::verif_common::{stub_format, stub_millis, CfgRL};

    fn sync_reply(magic: u16, nonce: u32) -> Message {
        Message { header: MessageHeader { magic }, body: MessageBody::SyncReply(SyncReply { random_reply: nonce }) }
    }

    /// One handshake step from ANY Synchronizing state (r = 1..5 round trips remaining, two
    /// outstanding request nonces n1 != n2, all symbolic) on ANY SyncReply (nonce x, magic g):
    /// a reply that matches an outstanding request consumes that nonce (a second copy of the same
    /// reply can never count again), announces Synchronizing{count = 5-(r-1), total = 5} and sends a
    /// fresh request - or, on the fifth match, switches to Running, announces Synchronized exactly
    /// then and pins the peer's magic; a stray/duplicate/foreign reply changes nothing. By
    /// induction: Running <=> five distinct matched round trips, counts rise 1..4, whatever the
    /// nonce values are (C17).
    #[kani::proof]
    #[kani::unwind(10)]
    #[kani::stub(crate::network::protocol::millis_since_epoch, stub_millis)]
    #[kani::stub(alloc::fmt::format, stub_format)]
    #[kani::stub(crate::network::compression::decode, crate::verif_common::stub_decode_err)]
    fn u_handshake_step() {
        let mut ep = mk_ep::<CfgRL>(vec![1], 2, 1, 2, false);
        let r: u32 = kani::any();
        kani::assume(r >= 1 && r <= NUM_SYNC_PACKETS);
        ep.sync_remaining_roundtrips = r;
        let n1: u32 = kani::any();
        let n2: u32 = kani::any();
        kani::assume(n1 != n2);
        ep.sync_random_requests.insert(n1);
        ep.sync_random_requests.insert(n2);
        let fresh: u32 = kani::any();
        rand::tape_reset();
        rand::tape_push(fresh as u64);
        let x: u32 = kani::any();
        let g: u16 = kani::any();
        let m = sync_reply(g, x);
        ep.handle_message(&m);
        let matched = x == n1 || x == n2;
        if !matched {
            assert!(ep.sync_remaining_roundtrips == r && ep.state == ProtocolState::Synchronizing);
            assert!(ep.event_queue.is_empty() && ep.send_queue.is_empty());
            assert!(ep.sync_random_requests.len() == 2 && ep.remote_magic == 0);
            kani::cover!(true, "stray reply ignored");
        } else {
            assert!(ep.sync_remaining_roundtrips == r - 1);
            // the matched nonce is spent; the other one is still outstanding
            let other = if x == n1 { n2 } else { n1 };
            assert!(ep.sync_random_requests.contains(&other));
            assert!(!ep.sync_random_requests.contains(&x) || x == fresh);
            assert!(ep.event_queue.len() == 1);
            if r > 1 {
                assert!(ep.state == ProtocolState::Synchronizing && ep.remote_magic == 0);
                match ep.event_queue[0] {
                    Event::Synchronizing { total, count } => {
                        assert!(total == NUM_SYNC_PACKETS && count == NUM_SYNC_PACKETS - (r - 1));
                        assert!(count >= 1 && count <= NUM_SYNC_PACKETS - 1);
                    }
                    _ => assert!(false, "expected Synchronizing"),
                }
                // a new round trip is started with a fresh nonce
                assert!(ep.send_queue.len() == 1);
                match ep.send_queue[0].body {
                    MessageBody::SyncRequest(q) => assert!(q.random_request == fresh),
                    _ => assert!(false, "expected a SyncRequest"),
                }
                assert!(ep.sync_random_requests.contains(&fresh));
                kani::cover!(r == 2, "fourth matched reply");
            } else {
                assert!(ep.state == ProtocolState::Running);
                assert!(matches!(ep.event_queue[0], Event::Synchronized));
                assert!(ep.remote_magic == g);
                assert!(ep.send_queue.is_empty());
                kani::cover!(true, "fifth matched reply completes the handshake");
            }
        }
        core::mem::forget(m);
        core::mem::forget(ep);
    }

    /// Replies are ignored once the endpoint is no longer synchronizing (no second Synchronized).
    #[kani::proof]
    #[kani::unwind(10)]
    #[kani::stub(crate::network::protocol::millis_since_epoch, stub_millis)]
    #[kani::stub(alloc::fmt::format, stub_format)]
    #[kani::stub(crate::network::compression::decode, crate::verif_common::stub_decode_err)]
    fn u_sync_reply_after_handshake_ignored() {
        let mut ep = mk_ep::<CfgRL>(vec![1], 2, 1, 2, true);
        let n1: u32 = kani::any();
        ep.sync_random_requests.insert(n1);
        let m = sync_reply(super::verif_u::MAGIC_REMOTE, kani::any());
        ep.handle_message(&m);
        assert!(ep.event_queue.is_empty() && ep.state == ProtocolState::Running);
        assert!(ep.sync_random_requests.len() == 1);
        kani::cover!(true, "reached");
        core::mem::forget(m);
        core::mem::forget(ep);
    }

    /// A SyncRequest is answered with a SyncReply echoing its nonce under our magic, in either
    /// state (a peer that is still synchronizing must be able to finish).
    #[kani::proof]
    #[kani::unwind(10)]
    #[kani::stub(crate::network::protocol::millis_since_epoch, stub_millis)]
    #[kani::stub(alloc::fmt::format, stub_format)]
    #[kani::stub(crate::network::compression::decode, crate::verif_common::stub_decode_err)]
    fn u_sync_request_echoed() {
        let running: bool = kani::any();
        let mut ep = mk_ep::<CfgRL>(vec![1], 2, 1, 2, running);
        let nonce: u32 = kani::any();
        let magic = if running { super::verif_u::MAGIC_REMOTE } else { kani::any() };
        let m = Message { header: MessageHeader { magic }, body: MessageBody::SyncRequest(SyncRequest { random_request: nonce }) };
        ep.handle_message(&m);
        assert!(ep.send_queue.len() == 1);
        assert!(ep.send_queue[0].header.magic == MAGIC_LOCAL);
        match ep.send_queue[0].body {
            MessageBody::SyncReply(r) => assert!(r.random_reply == nonce),
            _ => assert!(false, "expected a SyncReply"),
        }
        assert!(ep.event_queue.is_empty());
        kani::cover!(running, "while running");
        kani::cover!(!running, "while synchronizing");
        core::mem::forget(m);
        core::mem::forget(ep);
    }

    /// While synchronizing, poll() re-sends the request only after the retry interval (200 ms) and
    /// never raises a lifecycle event.
    #[kani::proof]
    #[kani::unwind(10)]
    #[kani::stub(crate::network::protocol::millis_since_epoch, stub_millis)]
    fn u_sync_retry_timer() {
        instant::set_now_ms(100_000);
        let mut ep = mk_ep::<CfgRL>(vec![1], 2, 1, 2, false);
        let waited = kani::any::<u16>() as u64;
        kani::assume(waited <= 5000);
        ep.last_sync_request_time = Instant::from_ms(100_000 - waited);
        ep.last_recv_time = Instant::from_ms(50_000); // long silence: no interruption events before Running
        rand::tape_reset();
        rand::tape_push(kani::any::<u32>() as u64);
        let cs = [ConnectionStatus::default(); 2];
        {
            let mut d = ep.poll(&cs);
            assert!(d.next().is_none(), "no lifecycle event while synchronizing");
            core::mem::forget(d);
        }
        assert!(ep.send_queue.len() == if waited > 200 { 1 } else { 0 });
        kani::cover!(waited > 200, "retry sent");
        kani::cover!(waited == 200, "exactly at the interval: not yet");
        core::mem::forget(ep);
    }

    // ------------------------------------------------------------------ quality / stats (C15)

    /// Frame advantage estimate: local_frame_advantage = last_recv_frame + (rtt/2 * fps)/1000 -
    /// local_frame, for any rtt <= 400 ms, fps in {30, 60, 120}, frames < 2^20.
    #[kani::proof]
    #[kani::unwind(10)]
    #[kani::stub(crate::network::protocol::millis_since_epoch, stub_millis)]
    fn u_local_frame_advantage() {
        let mut ep = mk_ep::<CfgRL>(vec![1], 2, 1, 2, true);
        let last: Frame = kani::any();
        kani::assume(last >= 0 && last < (1 << 20));
        ep.recv_inputs.clear();
        ep.recv_inputs.insert(last, InputBytes { frame: last, bytes: vec![0] });
        let rtt = kani::any::<u16>() as u128;
        kani::assume(rtt <= 400);
        ep.round_trip_time = rtt;
        let sel: u8 = kani::any();
        let fps: usize = if sel == 0 { 30 } else if sel == 1 { 60 } else { 120 };
        ep.fps = fps;
        let local: Frame = kani::any();
        kani::assume(local >= 0 && local < (1 << 20));
        ep.update_local_frame_advantage(local);
        let remote_est = last + (((rtt / 2) as i32) * fps as i32) / 1000;
        assert!(ep.local_frame_advantage == remote_est - local);
        // level peers over a zero-latency link: 0
        if rtt == 0 && local == last {
            assert!(ep.local_frame_advantage == 0);
        }
        kani::cover!(rtt == 200 && fps == 60, "100 ms one-way at 60 fps = 6 frames");
        core::mem::forget(ep);
    }

    /// Quality report/reply: the peer's reported advantage becomes our remote_frame_advantage (what
    /// one side reports as local is what the other reports as remote), the report is answered with
    /// its own timestamp, and a reply sets ping = now - echoed timestamp (saturating at 0).
    #[kani::proof]
    #[kani::unwind(10)]
    #[kani::stub(crate::network::protocol::millis_since_epoch, stub_millis)]
    #[kani::stub(alloc::fmt::format, stub_format)]
    #[kani::stub(crate::network::compression::decode, crate::verif_common::stub_decode_err)]
    fn u_quality_report_and_reply() {
        instant::set_now_ms(100_000);
        let mut ep = mk_ep::<CfgRL>(vec![1], 2, 1, 2, true);
        let adv: i16 = kani::any();
        let ts = kani::any::<u32>() as u128;
        let m = Message {
            header: MessageHeader { magic: super::verif_u::MAGIC_REMOTE },
            body: MessageBody::QualityReport(QualityReport { frame_advantage: adv, ping: ts }),
        };
        ep.handle_message(&m);
        assert!(ep.remote_frame_advantage == adv as i32);
        assert!(ep.send_queue.len() == 1);
        match ep.send_queue[0].body {
            MessageBody::QualityReply(r) => assert!(r.pong == ts),
            _ => assert!(false, "expected a QualityReply"),
        }
        let pong = kani::any::<u32>() as u128;
        let m2 = Message {
            header: MessageHeader { magic: super::verif_u::MAGIC_REMOTE },
            body: MessageBody::QualityReply(QualityReply { pong }),
        };
        ep.handle_message(&m2);
        let want = if pong <= 100_000 { 100_000 - pong } else { 0 };
        assert!(ep.round_trip_time == want);
        kani::cover!(pong > 100_000, "timestamp from the future saturates to 0");
        kani::cover!(pong == 99_900, "100 ms round trip");
        core::mem::forget(m);
        core::mem::forget(m2);
        core::mem::forget(ep);
    }

    /// The quality report an endpoint sends carries exactly its local frame advantage (clamped to
    /// i16) and the current time.
    #[kani::proof]
    #[kani::unwind(10)]
    #[kani::stub(crate::network::protocol::millis_since_epoch, stub_millis)]
    fn u_quality_report_sent() {
        instant::set_now_ms(100_000);
        let mut ep = mk_ep::<CfgRL>(vec![1], 2, 1, 2, true);
        let adv: i32 = kani::any();
        ep.local_frame_advantage = adv;
        ep.send_quality_report();
        assert!(ep.send_queue.len() == 1);
        match ep.send_queue[0].body {
            MessageBody::QualityReport(q) => {
                let clamped = if adv > 32767 { 32767 } else if adv < -32768 { -32768 } else { adv };
                assert!(q.frame_advantage as i32 == clamped);
                assert!(q.ping == 100_000);
            }
            _ => assert!(false, "expected a QualityReport"),
        }
        kani::cover!(adv == -7, "behind");
        core::mem::forget(ep);
    }

    /// network_stats: NotSynchronized outside {Synchronizing, Running}, NotEnoughData during the first
    /// second after the connection started, otherwise exactly the stored numbers.
    #[kani::proof]
    #[kani::unwind(10)]
    #[kani::stub(crate::network::protocol::millis_since_epoch, stub_millis)]
    fn u_network_stats_contract() {
        instant::set_now_ms(100_000);
        let mut ep = mk_ep::<CfgRL>(vec![1], 2, 1, 2, true);
        let st: u8 = kani::any();
        kani::assume(st < 5);
        ep.state = match st {
            0 => ProtocolState::Initializing,
            1 => ProtocolState::Synchronizing,
            2 => ProtocolState::Running,
            3 => ProtocolState::Disconnected,
            _ => ProtocolState::Shutdown,
        };
        let age = kani::any::<u16>() as u128; // ms since the connection started
        kani::assume(age <= 5000);
        ep.stats_start_time = 100_000 - age;
        ep.round_trip_time = kani::any::<u16>() as u128;
        ep.local_frame_advantage = kani::any();
        ep.remote_frame_advantage = kani::any();
        ep.pending_output.push_back(InputBytes { frame: 0, bytes: vec![0] });
        let r = ep.network_stats();
        if st != 1 && st != 2 {
            assert!(matches!(r, Err(GgrsError::NotSynchronized)));
        } else if age < 1000 {
            assert!(matches!(r, Err(GgrsError::NotEnoughData)));
        } else {
            match r {
                Ok(ns) => {
                    assert!(ns.ping == ep.round_trip_time);
                    assert!(ns.send_queue_len == 1);
                    assert!(ns.local_frames_behind == ep.local_frame_advantage);
                    assert!(ns.remote_frames_behind == ep.remote_frame_advantage);
                }
                Err(_) => assert!(false, "stats expected"),
            }
        }
        kani::cover!(st == 2 && age == 999, "just under a second");
        kani::cover!(st == 2 && age == 1000, "a full second");
        core::mem::forget(ep);
    }

    // ------------------------------------------------------------------ checksum reports (C09, C18)

    /// on_checksum_report: the report is stored under its frame; once the store is at its cap
    /// (MAX_CHECKSUM_HISTORY_SIZE, regenerated to 4) everything older than (cap-1) intervals before the
    /// new frame is dropped first, so in-order reports keep the store at <= cap entries.
    #[kani::proof]
    #[kani::unwind(10)]
    #[kani::stub(crate::network::protocol::millis_since_epoch, stub_millis)]
    fn u_checksum_report_store_bounded() {
        let mut ep = mk_ep::<CfgRL>(vec![1], 2, 1, 2, true);
        let interval: u32 = kani::any();
        kani::assume(interval >= 1 && interval <= 3);
        ep.desync_detection = DesyncDetection::On { interval };
        let base: Frame = kani::any();
        kani::assume(base >= 0 && base < (1 << 16));
        let iv = interval as Frame;
        // store at its cap with in-order reports base, base+iv, ...
        let mut i = 0;
        while i < MAX_CHECKSUM_HISTORY_SIZE {
            ep.pending_checksums.insert(base + i as Frame * iv, i as u128);
            i += 1;
        }
        let next = base + MAX_CHECKSUM_HISTORY_SIZE as Frame * iv;
        let cs: u128 = kani::any::<u64>() as u128;
        ep.on_checksum_report(&ChecksumReport { frame: next, checksum: cs });
        assert!(ep.pending_checksums.len() <= MAX_CHECKSUM_HISTORY_SIZE);
        assert!(ep.pending_checksums.get(&next) == Some(&cs));
        assert!(!ep.pending_checksums.contains_key(&base), "the oldest report is dropped");
        assert!(ep.pending_checksums.contains_key(&(base + iv)));
        kani::cover!(interval == 3, "interval 3");
        core::mem::forget(ep);
    }

    /// The real constructor orders the endpoint's handles ascending whatever order the caller's (hash-map driven)
    /// collection delivered them in (C17): the i-th slice of a decoded input packet is attributed to the i-th smallest
    /// handle, which is the order the sender assembles the bytes in. Three handles, order chosen by the solver.
    #[kani::proof]
    #[kani::unwind(8)]
    #[kani::stub(crate::network::protocol::millis_since_epoch, stub_millis)]
    #[kani::stub(alloc::fmt::format, stub_format)]
    fn u_new_orders_handles() {
        let mut hs = [1usize, 2, 4];
        if kani::any() {
            hs.swap(0, 1);
        }
        if kani::any() {
            hs.swap(1, 2);
        }
        if kani::any() {
            hs.swap(0, 1);
        }
        let mut v = Vec::with_capacity(3);
        v.push(hs[0]);
        v.push(hs[1]);
        v.push(hs[2]);
        let ep = mk_ep::<CfgRL>(v, 5, 1, 2, true);
        let h = ep.handles();
        assert!(h.len() == 3 && h[0] == 1 && h[1] == 2 && h[2] == 4, "C17: endpoint handles ascending for every registration order");
        kani::cover!(hs[0] == 4 && hs[2] == 1, "delivered in descending order");
        core::mem::forget(ep);
    }

    fn any_ms(max: u64) -> u64 {
        let v = kani::any::<u16>() as u64;
        kani::assume(v <= max);
        v
    }

    /// Keep-alive kernel (C12 "sessions that merely poll never see an interruption", C05): poll() on a
    /// Running endpoint with nothing to retransmit and no quality report due; time since the last packet
    /// sent symbolic (0..10 s); instance: input-retry timer due or not. After the call the endpoint's
    /// newest transmission is at most KEEP_ALIVE_INTERVAL (200 ms) old: a KeepAlive (own magic) goes out
    /// iff nothing was sent for strictly more than 200 ms, otherwise nothing is queued; no event is
    /// raised (silence timers: u_poll_*_timer). The quality-report-due case is its own instance
    /// (u_poll_quality_stands_in_for_keep_alive): both timers symbolic in one query make the queue position
    /// symbolic (solver out of memory at 14 GB). Stub: millis_since_epoch.
    macro_rules! keep_alive_case {
        ($name:ident, $s_input:expr) => {
            #[kani::proof]
            #[kani::unwind(6)]
            #[kani::stub(crate::network::protocol::millis_since_epoch, stub_millis)]
            fn $name() {
                let now = 100_000u64;
                instant::set_now_ms(now);
                let mut ep = mk_ep::<CfgRL>(vec![1], 2, 1, 2, true);
                let s_send = any_ms(10_000);
                ep.last_send_time = Instant::from_ms(now - s_send);
                ep.running_last_quality_report = Instant::from_ms(now - 100);
                ep.running_last_input_recv = Instant::from_ms(now - $s_input);
                ep.last_recv_time = Instant::from_ms(now);
                ep.disconnect_notify_sent = true;
                ep.disconnect_event_sent = true;
                let cs = [ConnectionStatus::default(); 2];
                {
                    let mut d = ep.poll(&cs);
                    assert!(d.next().is_none(), "no event from the send timers");
                    core::mem::forget(d);
                }
                let k_due = s_send > 200;
                if k_due {
                    assert!(ep.send_queue.len() == 1, "C12: keep-alive after 200 ms without sending");
                    assert!(matches!(ep.send_queue[0].body, MessageBody::KeepAlive) && ep.send_queue[0].header.magic == MAGIC_LOCAL);
                    assert!(ep.last_send_time.as_ms() == now);
                } else {
                    assert!(ep.send_queue.len() == 0, "nothing due: nothing sent");
                }
                assert!(now - ep.last_send_time.as_ms() <= 200, "C12/C05: a polled Running endpoint is never silent for more than the keep-alive interval");
                assert!(ep.pending_output.len() == 0 && ep.state == ProtocolState::Running);
                kani::cover!(k_due, "keep-alive");
                kani::cover!(s_send == 200, "exactly at the interval: not yet");
                core::mem::forget(ep);
            }
        };
    }
    keep_alive_case!(u_poll_keep_alive_bound, 0u64);
    keep_alive_case!(u_poll_keep_alive_bound_retry_due, 5000u64);

    /// poll() in which the quality report IS due (concrete: 5000 ms since the last one), time since the last
    /// packet sent symbolic (0..10 s): exactly one packet is queued - the QualityReport stands in for the
    /// keep-alive, no second packet - and the newest transmission is "now". Stub: millis_since_epoch.
    #[kani::proof]
    #[kani::unwind(6)]
    #[kani::stub(crate::network::protocol::millis_since_epoch, stub_millis)]
    fn u_poll_quality_stands_in_for_keep_alive() {
        let now = 100_000u64;
        instant::set_now_ms(now);
        let mut ep = mk_ep::<CfgRL>(vec![1], 2, 1, 2, true);
        let s_send = any_ms(10_000);
        ep.last_send_time = Instant::from_ms(now - s_send);
        ep.running_last_quality_report = Instant::from_ms(now - 5000);
        ep.running_last_input_recv = Instant::from_ms(now);
        ep.last_recv_time = Instant::from_ms(now);
        ep.disconnect_notify_sent = true;
        ep.disconnect_event_sent = true;
        let cs = [ConnectionStatus::default(); 2];
        {
            let mut d = ep.poll(&cs);
            assert!(d.next().is_none());
            core::mem::forget(d);
        }
        assert!(ep.send_queue.len() == 1, "one packet, not two");
        assert!(matches!(ep.send_queue.front().unwrap().body, MessageBody::QualityReport(_)));
        assert!(ep.last_send_time.as_ms() == now && ep.running_last_quality_report.as_ms() == now);
        kani::cover!(s_send > 200, "keep-alive would have been due");
        core::mem::forget(ep);
    }

    /// After disconnect() (C12 "nothing after Disconnected", C07): poll() on a Disconnected endpoint,
    /// time since the disconnect symbolic (0..20 s), send/recv silence symbolic: no event is raised and no
    /// packet is queued however long the peer has been silent; the endpoint becomes Shutdown iff strictly
    /// more than UDP_SHUTDOWN_TIMER (5000 ms) have passed since disconnect(), and a Shutdown endpoint
    /// stays Shutdown and silent on the next poll. Stub: millis_since_epoch (virtual clock).
    #[kani::proof]
    #[kani::unwind(6)]
    #[kani::stub(crate::network::protocol::millis_since_epoch, stub_millis)]
    fn u_poll_after_disconnect_quiet() {
        let t0 = 100_000u64;
        instant::set_now_ms(t0);
        let mut ep = mk_ep::<CfgRL>(vec![1], 2, 1, 2, true);
        ep.disconnect_notify_sent = kani::any();
        ep.disconnect_event_sent = kani::any();
        ep.disconnect();
        assert!(ep.state == ProtocolState::Disconnected);
        let dt = any_ms(20_000);
        let now = t0 + dt;
        instant::set_now_ms(now);
        let s_send = any_ms(20_000);
        let s_recv = any_ms(20_000);
        ep.last_send_time = Instant::from_ms(now - s_send);
        ep.last_recv_time = Instant::from_ms(now - s_recv);
        ep.running_last_quality_report = Instant::from_ms(now - s_send);
        ep.running_last_input_recv = Instant::from_ms(now - s_recv);
        let cs = [ConnectionStatus::default(); 2];
        {
            let mut d = ep.poll(&cs);
            assert!(d.next().is_none(), "C12: no event after the disconnect");
            core::mem::forget(d);
        }
        assert!(ep.send_queue.len() == 0, "no packet from a disconnected endpoint's timers");
        let want_shutdown = dt > UDP_SHUTDOWN_TIMER;
        assert!((ep.state == ProtocolState::Shutdown) == want_shutdown);
        assert!(want_shutdown || ep.state == ProtocolState::Disconnected);
        {
            let mut d = ep.poll(&cs);
            assert!(d.next().is_none());
            core::mem::forget(d);
        }
        assert!((ep.state == ProtocolState::Shutdown) == want_shutdown && ep.send_queue.len() == 0);
        kani::cover!(dt == UDP_SHUTDOWN_TIMER, "exactly at the shutdown timer: not yet");
        kani::cover!(want_shutdown && s_recv > 2000, "shut down, long silent");
        core::mem::forget(ep);
    }
}
