#[cfg(kani)]
mod verif_b {
    //! B — the two `SessionBuilder` start functions that can be driven without ever forming a
    //! `Result<SessionBuilder, _>` value (Kani 0.68 crashes on that type's niche-encoded discriminant, see
    //! probes/attempted/README.md): players are registered by writing the builder's registry directly,
    //! which is what `add_player` does after its validation.
    use super::*;
    use crate::verif_common::{stub_format, stub_millis, CfgRL, NullSocket};

    /// start_synctest_session is accepted iff check_distance < max_prediction_window and sparse saving
    /// is off (C13: invalid configurations must be rejected with InvalidRequest); an accepted session
    /// reports the configured values.
    #[kani::proof]
    #[kani::unwind(10)]
    #[kani::stub(alloc::fmt::format, stub_format)]
    fn b_synctest_rejection() {
        let w: usize = kani::any();
        let cd: usize = kani::any();
        kani::assume(w <= 4 && cd <= 5);
        let sparse: bool = kani::any();
        let b = SessionBuilder::<CfgRL>::new()
            .with_max_prediction_window(w)
            .with_check_distance(cd)
            .with_sparse_saving_mode(sparse);
        match b.start_synctest_session() {
            Ok(s) => {
                assert!(cd < w && !sparse, "C13: invalid sync-test configuration accepted");
                assert!(s.check_distance() == cd && s.max_prediction() == w && s.num_players() == 2);
                core::mem::forget(s);
            }
            Err(GgrsError::InvalidRequest { .. }) => assert!(cd >= w || sparse, "C13: valid configuration rejected"),
            Err(_) => assert!(false, "documented error kind"),
        }
        kani::cover!(cd == w && !sparse, "check distance equal to the window");
        kani::cover!(cd + 1 == w && !sparse, "largest valid check distance");
    }

    /// start_p2p_session with a player handle missing is rejected with InvalidRequest however many
    /// spectators are registered (spectators never count as players), and so is a desync interval of 0.
    #[kani::proof]
    #[kani::unwind(10)]
    #[kani::stub(crate::network::protocol::millis_since_epoch, stub_millis)]
    #[kani::stub(alloc::fmt::format, stub_format)]
    fn b_start_p2p_incomplete_rejected() {
        let mut b = SessionBuilder::<CfgRL>::new();
        let missing: usize = if kani::any() { 0 } else { 1 };
        b.player_reg.handles.insert(1 - missing, PlayerType::Local);
        b.local_players = 1;
        let spectators: u8 = kani::any();
        kani::assume(spectators <= 2);
        if spectators >= 1 {
            b.player_reg.handles.insert(2, PlayerType::Spectator(7));
        }
        if spectators >= 2 {
            b.player_reg.handles.insert(3, PlayerType::Spectator(6));
        }
        match b.start_p2p_session(NullSocket) {
            Err(GgrsError::InvalidRequest { .. }) => {}
            Err(_) => assert!(false, "documented error kind"),
            Ok(s) => {
                assert!(false, "C16: a session with a missing player was accepted");
                core::mem::forget(s);
            }
        }
        kani::cover!(spectators == 2, "as many handles registered as players required");
        kani::cover!(missing == 0, "player 0 missing");
    }

    /// A complete all-local configuration is accepted, starts Running (no endpoints) and reports the
    /// player count; with desync interval 0 it is rejected.
    #[kani::proof]
    #[kani::unwind(10)]
    #[kani::stub(crate::network::protocol::millis_since_epoch, stub_millis)]
    #[kani::stub(alloc::fmt::format, stub_format)]
    fn b_start_p2p_all_local() {
        let mut b = SessionBuilder::<CfgRL>::new();
        b.player_reg.handles.insert(0, PlayerType::Local);
        b.player_reg.handles.insert(1, PlayerType::Local);
        b.local_players = 2;
        let interval0: bool = kani::any();
        if interval0 {
            b = b.with_desync_detection_mode(DesyncDetection::On { interval: 0 });
        }
        match b.start_p2p_session(NullSocket) {
            Ok(s) => {
                assert!(!interval0);
                assert!(s.current_state() == crate::SessionState::Running && s.num_players() == 2);
                core::mem::forget(s);
            }
            Err(GgrsError::InvalidRequest { .. }) => assert!(interval0, "C16: valid configuration rejected"),
            Err(_) => assert!(false),
        }
        kani::cover!(!interval0, "accepted");
    }
}
