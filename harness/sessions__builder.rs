#[cfg(kani)]
mod verif_b {
    //! B - `SessionBuilder::start_synctest_session` at prediction window 0 (C13, C16). This is the only piece of the builder
    //! the symbolic executor gets through (probes/attempted/README.md): with window 0 every check distance is invalid, so
    //! no session is ever constructed on the unchanged tree. Build switch `vcoll_boxmap` (slot arrays boxed per map) hides the
    //! 128-bit niche that crashes Kani 0.68 on `Result<SyncTestSession, GgrsError>`.
    use super::*;
    use crate::verif_common::{stub_format, CfgRL};

    /// start_synctest_session (C13, C16) for one concrete prediction window per instance (the session allocates
    /// window+1 save cells: a symbolic window is a symbolic-length allocation), check distance, sparse flag, input
    /// delay and player count symbolic: accepted iff check_distance < max_prediction_window and sparse saving is
    /// off, rejected with InvalidRequest otherwise; an accepted session reports the configured values.
    fn synctest(w: usize) {
        let cd: usize = kani::any();
        kani::assume(cd <= w + 2);
        let sparse: bool = kani::any();
        let delay: usize = kani::any();
        kani::assume(delay <= 2);
        let one_player: bool = kani::any();
        let mut b = SessionBuilder::<CfgRL>::new();
        if one_player {
            b = b.with_num_players(1).unwrap_or_else(|_| SessionBuilder::new());
        }
        let b = b.with_max_prediction_window(w).with_check_distance(cd).with_sparse_saving_mode(sparse).with_input_delay(delay);
        match b.start_synctest_session() {
            Ok(s) => {
                assert!(cd < w && !sparse, "C13: invalid sync-test configuration accepted");
                assert!(s.check_distance() == cd && s.max_prediction() == w, "configured values reported");
                assert!(s.num_players() == if one_player { 1 } else { 2 });
                core::mem::forget(s);
            }
            Err(GgrsError::InvalidRequest { .. }) => assert!(cd >= w || sparse, "C13: valid configuration rejected"),
            Err(_) => assert!(false, "documented error kind"),
        }
        kani::cover!(cd == w && !sparse, "check distance equal to the window");
        kani::cover!(w == 0 || (cd + 1 == w && !sparse), "largest valid check distance");
    }
    macro_rules! synctest_case {
        ($name:ident, $w:expr) => {
            /// start_synctest_session accepted iff check_distance < window and not sparse (instance: window; check
            /// distance 0..window+2, sparse flag, input delay 0..2, 1 or 2 players symbolic)
            #[kani::proof]
            #[kani::unwind(10)]
            #[kani::stub(alloc::fmt::format, stub_format)]
            fn $name() {
                synctest($w);
            }
        };
    }
    synctest_case!(b_synctest_w0, 0);
}
