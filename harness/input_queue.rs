#[cfg(kani)]
pub(crate) mod verif_q {
    //! Q — `InputQueue` inductive single-step harnesses (C01, C03, C11, C18).
    //! Pre-state: every field symbolic, constrained only by the representation invariant `inv`;
    //! one real operation; post: its contract and `inv` again. One step from *any* state that
    //! satisfies `inv` covers histories of any length, including any number of ring wraps, for
    //! the regenerated ring size N (8 quick / 16 thorough; the shipped value is 128).
    use super::*;
    use crate::verif_common::{CfgDef, CfgRL};

    const N: usize = INPUT_QUEUE_LENGTH;
    const MAX_DELAY: usize = 6;
    const MAX_FRAME: Frame = 1 << 20;

    /// ghost: the frame the current prediction was computed from (NULL_FRAME if from nothing)
    #[derive(Clone, Copy)]
    struct Ghost {
        pbase: Frame,
    }

    fn any_queue<T: Config<Input = u8>>() -> (InputQueue<T>, Ghost) {
        let mut inputs = Vec::with_capacity(N);
        let mut k = 0;
        while k < N {
            inputs.push(PlayerInput::new(kani::any(), kani::any::<u8>()));
            k += 1;
        }
        let q = InputQueue::<T> {
            head: kani::any(),
            tail: kani::any(),
            length: kani::any(),
            first_frame: kani::any(),
            last_added_frame: kani::any(),
            last_user_frame: kani::any(),
            first_incorrect_frame: kani::any(),
            last_requested_frame: kani::any(),
            frame_delay: kani::any(),
            inputs,
            prediction: PlayerInput::new(kani::any(), kani::any::<u8>()),
        };
        let g = Ghost { pbase: kani::any() };
        (q, g)
    }

    fn first_frame_of<T: Config<Input = u8>>(q: &InputQueue<T>) -> Frame {
        q.last_added_frame - (q.length as Frame - 1)
    }

    /// The representation invariant of a live queue (see DESIGN.md, family Q).
    fn inv<T: Config<Input = u8>>(q: &InputQueue<T>, g: &Ghost) -> bool {
        if !(q.head < N && q.tail < N && q.length <= N && q.frame_delay <= MAX_DELAY) {
            return false;
        }
        if q.last_requested_frame < NULL_FRAME || q.last_requested_frame > MAX_FRAME {
            return false;
        }
        let la = q.last_added_frame;
        if la == NULL_FRAME {
            // nothing added yet
            if !(q.first_frame && q.last_user_frame == NULL_FRAME && q.head == 0 && q.tail == 0 && q.length == 0) {
                return false;
            }
            let mut s = 0;
            while s < N {
                if q.inputs[s].frame != NULL_FRAME || q.inputs[s].input != 0 {
                    return false;
                }
                s += 1;
            }
            if q.first_incorrect_frame != NULL_FRAME {
                return false;
            }
            if q.prediction.frame == NULL_FRAME {
                return true;
            }
            return q.prediction.frame == 0
                && q.prediction.input == 0
                && g.pbase == NULL_FRAME
                && q.last_requested_frame >= 0;
        }
        if !(la >= 0 && la < MAX_FRAME && !q.first_frame) {
            return false;
        }
        if !(q.last_user_frame >= 0 && q.last_user_frame <= la) {
            return false;
        }
        if !(q.length >= 1 && (q.length as Frame) <= la + 1) {
            return false;
        }
        if q.head != (la as usize + 1) % N || q.tail != (q.head + N - q.length) % N {
            return false;
        }
        let first = first_frame_of(q);
        let p_active = q.prediction.frame != NULL_FRAME;
        let fi = q.first_incorrect_frame;
        if p_active {
            if q.prediction.frame != la + 1 {
                return false;
            }
            if !(g.pbase >= NULL_FRAME && g.pbase <= la) {
                return false;
            }
            if fi != NULL_FRAME && !(fi > g.pbase && fi <= la) {
                return false;
            }
            if fi == NULL_FRAME && q.last_requested_frame <= la {
                return false;
            }
        } else if fi != NULL_FRAME {
            return false;
        }
        let mut k = 0;
        while k < N {
            let s = (q.tail + k) % N;
            if k < q.length {
                let fr = first + k as Frame;
                if q.inputs[s].frame != fr {
                    return false;
                }
                if p_active && fr > g.pbase {
                    if fi == NULL_FRAME || fr < fi {
                        if q.inputs[s].input != q.prediction.input {
                            return false;
                        }
                    } else if fr == fi && q.inputs[s].input == q.prediction.input {
                        return false;
                    }
                }
            } else {
                let older = first + k as Frame - N as Frame;
                if older >= 0 {
                    if q.inputs[s].frame != older {
                        return false;
                    }
                } else if q.inputs[s].frame != NULL_FRAME || q.inputs[s].input != 0 {
                    return false;
                }
            }
            k += 1;
        }
        if p_active && fi == NULL_FRAME {
            // the value handed out as a prediction is the predictor applied to the newest real input
            let newest = q.inputs[InputQueue::<T>::prev_pos(q.head)].input;
            if q.prediction.input != T::InputPredictor::predict(newest) {
                return false;
            }
        }
        true
    }

    // ---- helpers for the harnesses of other modules (private fields are visible only here)
    pub(crate) fn set_fi<T: Config<Input = u8>>(q: &mut InputQueue<T>, fi: Frame) {
        q.first_incorrect_frame = fi;
    }
    pub(crate) fn la<T: Config<Input = u8>>(q: &InputQueue<T>) -> Frame {
        q.last_added_frame
    }
    pub(crate) fn lr<T: Config<Input = u8>>(q: &InputQueue<T>) -> Frame {
        q.last_requested_frame
    }
    pub(crate) fn len<T: Config<Input = u8>>(q: &InputQueue<T>) -> usize {
        q.length
    }
    pub(crate) fn tail_frame<T: Config<Input = u8>>(q: &InputQueue<T>) -> Frame {
        q.inputs[q.tail].frame
    }
    pub(crate) fn predicting<T: Config<Input = u8>>(q: &InputQueue<T>) -> bool {
        q.prediction.frame != NULL_FRAME
    }
    pub(crate) fn slot<T: Config<Input = u8>>(q: &InputQueue<T>, f: Frame) -> (Frame, u8) {
        let s = q.inputs[f as usize % N];
        (s.frame, s.input)
    }
    pub(crate) const RING: usize = N;
    pub(crate) fn lu<T: Config<Input = u8>>(q: &InputQueue<T>) -> Frame {
        q.last_user_frame
    }
    pub(crate) fn fi<T: Config<Input = u8>>(q: &InputQueue<T>) -> Frame {
        q.first_incorrect_frame
    }
    pub(crate) fn delay<T: Config<Input = u8>>(q: &InputQueue<T>) -> usize {
        q.frame_delay
    }
    pub(crate) fn pred_input<T: Config<Input = u8>>(q: &InputQueue<T>) -> u8 {
        q.prediction.input
    }
    /// Constructive builder for the session-level step harnesses: a live queue (delay 0) whose window
    /// holds the frames tail..=la with the given per-slot values, cursors as given, and (optionally) a
    /// running prediction (frame la+1, input) with first-incorrect frame `fi`.
    pub(crate) fn build<T: Config<Input = u8>>(
        la: Frame,
        tail: Frame,
        lr: Frame,
        vals: &[u8; N],
        pred: Option<u8>,
        fi: Frame,
    ) -> InputQueue<T> {
        let mut q = InputQueue::<T>::new();
        if la == NULL_FRAME {
            q.last_requested_frame = lr;
            if let Some(pv) = pred {
                q.prediction = PlayerInput::new(0, pv);
            }
            return q;
        }
        q.head = (la as usize + 1) % N;
        q.tail = tail as usize % N;
        q.length = (la - tail + 1) as usize;
        q.first_frame = false;
        q.last_added_frame = la;
        q.last_user_frame = la;
        q.first_incorrect_frame = fi;
        q.last_requested_frame = lr;
        let mut s = 0;
        while s < N {
            // the newest frame <= la congruent to s
            let back = (la - s as Frame).rem_euclid(N as Frame);
            let g = la - back;
            if g >= 0 {
                q.inputs[s] = PlayerInput::new(g, vals[s]);
            }
            s += 1;
        }
        if let Some(pv) = pred {
            q.prediction = PlayerInput::new(la + 1, pv);
        }
        q
    }

    /// like `build`, but the newest user frame is one behind the newest stored frame (a delay decrease
    /// that has not drained yet): the next sequential submission is dropped
    pub(crate) fn build_lagging<T: Config<Input = u8>>(la: Frame, tail: Frame, vals: &[u8; N]) -> InputQueue<T> {
        let mut q = build::<T>(la, tail, NULL_FRAME, vals, None, NULL_FRAME);
        q.last_user_frame = la - 1;
        q
    }
    /// like `build`, in steady state at frame delay d (newest user frame = la - d)
    pub(crate) fn build_delayed<T: Config<Input = u8>>(la: Frame, tail: Frame, d: usize, vals: &[u8; N]) -> InputQueue<T> {
        let mut q = build::<T>(la, tail, NULL_FRAME, vals, None, NULL_FRAME);
        q.frame_delay = d;
        q.last_user_frame = la - d as Frame;
        q
    }

    /// any queue state satisfying the representation invariant, with its ghost prediction base
    pub(crate) fn any_valid<T: Config<Input = u8>>() -> (InputQueue<T>, Frame) {
        let (q, g) = any_queue::<T>();
        kani::assume(inv(&q, &g));
        (q, g.pbase)
    }
    /// the representation invariant, for post-state checks of other harnesses
    pub(crate) fn holds<T: Config<Input = u8>>(q: &InputQueue<T>, pbase: Frame) -> bool {
        inv(q, &Ghost { pbase })
    }

    fn value_of<T: Config<Input = u8>>(q: &InputQueue<T>, f: Frame) -> u8 {
        q.inputs[f as usize % N].input
    }

    // ------------------------------------------------------------------ add_input

    fn add_step<T: Config<Input = u8>>() {
        let (mut q, g) = any_queue::<T>();
        kani::assume(inv(&q, &g));
        let uf: Frame = kani::any();
        kani::assume(uf >= 0 && uf < MAX_FRAME);
        let v: u8 = kani::any();
        // snapshot
        let la = q.last_added_frame;
        let lu = q.last_user_frame;
        let len0 = q.length;
        let d = q.frame_delay as Frame;
        let fi0 = q.first_incorrect_frame;
        let lr = q.last_requested_frame;
        let p_active = q.prediction.frame != NULL_FRAME;
        let p_in = q.prediction.input;
        let newest = if la == NULL_FRAME { 0u8 } else { value_of(&q, la) };
        let mut old = [(NULL_FRAME, 0u8); N];
        let mut s = 0;
        while s < N {
            old[s] = (q.inputs[s].frame, q.inputs[s].input);
            s += 1;
        }
        let sequential = lu == NULL_FRAME || uf == lu + 1;
        let target = uf + d;
        let accepted = sequential && target > la;
        // call precondition (asserted at the call sites by the S/P harnesses): room in the ring
        kani::assume(!accepted || len0 + (target - la) as usize <= N);
        kani::assume(target < MAX_FRAME); // frame-counter bound of the claim

        let r = q.add_input(PlayerInput::new(uf, v));

        if !sequential {
            assert!(r == NULL_FRAME);
            assert!(q.last_user_frame == lu && q.last_added_frame == la && q.length == len0);
            kani::cover!(true, "non-sequential input dropped");
        } else if !accepted {
            assert!(r == NULL_FRAME);
            assert!(q.last_user_frame == uf && q.last_added_frame == la && q.length == len0);
            kani::cover!(true, "input dropped after a delay decrease");
        } else {
            assert!(r == target);
            assert!(q.last_user_frame == uf && q.last_added_frame == target);
            assert!(q.length == len0 + (target - la) as usize);
            // gapless: fills carry the previous newest value (default before anything), the new frame carries v
            let mut f = la + 1;
            let mut first_mismatch = NULL_FRAME;
            while f <= target {
                let slot = q.inputs[f as usize % N];
                assert!(slot.frame == f);
                let want = if f == target { v } else { newest };
                assert!(slot.input == want);
                if first_mismatch == NULL_FRAME && want != p_in {
                    first_mismatch = f;
                }
                f += 1;
            }
            // frames of the old window are untouched
            let mut k = 0;
            while k < len0 {
                let fr = la - (len0 as Frame - 1) + k as Frame;
                let sl = fr as usize % N;
                assert!(q.inputs[sl].frame == old[sl].0 && q.inputs[sl].input == old[sl].1);
                k += 1;
            }
            // misprediction detection: every frame handed out as a prediction, i.e. in (pbase, LR],
            // whose real value differs from the prediction is flagged, earliest first
            if fi0 != NULL_FRAME {
                assert!(q.first_incorrect_frame == fi0);
            } else if p_active {
                let exit = lr > la && lr <= target;
                if first_mismatch != NULL_FRAME && (!exit || first_mismatch <= lr) {
                    assert!(q.first_incorrect_frame == first_mismatch);
                    assert!(q.prediction.frame == target + 1);
                    kani::cover!(true, "misprediction flagged");
                } else if exit {
                    assert!(q.first_incorrect_frame == NULL_FRAME && q.prediction.frame == NULL_FRAME);
                    kani::cover!(true, "prediction mode left after a correct run");
                } else {
                    assert!(q.first_incorrect_frame == NULL_FRAME && q.prediction.frame == target + 1);
                }
            } else {
                assert!(q.first_incorrect_frame == NULL_FRAME && q.prediction.frame == NULL_FRAME);
            }
            kani::cover!(target > la + 1 && la != NULL_FRAME, "gap filled after a delay increase");
            kani::cover!(la != NULL_FRAME && (la as usize + 1) % N == 0, "ring wraps");
            kani::cover!(la == NULL_FRAME && target > 0, "first input lands after the delay");
        }
        assert!(inv(&q, &g));
        core::mem::forget(q);
    }

    /// add_input contract + invariant preservation, PredictRepeatLast.
    #[kani::proof]
    #[kani::unwind(10)]
    fn q_add_step_rl() {
        add_step::<CfgRL>();
    }
    /// add_input contract + invariant preservation, PredictDefault.
    #[kani::proof]
    #[kani::unwind(10)]
    fn q_add_step_def() {
        add_step::<CfgDef>();
    }

    // ------------------------------------------------------------------ input

    fn input_step<T: Config<Input = u8>>() {
        let (mut q, mut g) = any_queue::<T>();
        kani::assume(inv(&q, &g));
        let f: Frame = kani::any();
        let la = q.last_added_frame;
        let p_active = q.prediction.frame != NULL_FRAME;
        // call preconditions (asserted at the call sites by the S/P harnesses)
        kani::assume(q.first_incorrect_frame == NULL_FRAME);
        kani::assume(f >= 0 && f < MAX_FRAME);
        kani::assume(la == NULL_FRAME || f >= first_frame_of(&q));
        kani::assume(!p_active || f > la);
        let stored = if la != NULL_FRAME && f <= la { value_of(&q, f) } else { 0 };
        let newest = if la == NULL_FRAME { 0u8 } else { value_of(&q, la) };
        let p_in = q.prediction.input;
        let len0 = q.length;

        let (val, st) = q.input(f);

        assert!(q.last_requested_frame == f);
        assert!(q.last_added_frame == la && q.length == len0);
        if la != NULL_FRAME && f <= la {
            // C03: Confirmed <=> the real input for that frame has been received; value is that input
            assert!(st == InputStatus::Confirmed && val == stored);
            assert!(q.prediction.frame == NULL_FRAME);
            kani::cover!(true, "confirmed input returned");
        } else {
            assert!(st == InputStatus::Predicted);
            assert!(q.prediction.frame == la + 1);
            if p_active {
                assert!(val == p_in);
                kani::cover!(true, "sticky prediction reused");
            } else {
                g.pbase = la;
                let want = if la == NULL_FRAME { 0u8 } else { T::InputPredictor::predict(newest) };
                // C03: Predicted value == predictor(newest real input), default if none yet
                assert!(val == want);
                kani::cover!(la != NULL_FRAME, "new prediction from the newest input");
                kani::cover!(la == NULL_FRAME, "prediction before any input");
            }
        }
        assert!(inv(&q, &g));
        core::mem::forget(q);
    }

    /// input() contract (Confirmed/Predicted truthfulness) + invariant, PredictRepeatLast.
    #[kani::proof]
    #[kani::unwind(10)]
    fn q_input_step_rl() {
        input_step::<CfgRL>();
    }
    /// input() contract (Confirmed/Predicted truthfulness) + invariant, PredictDefault.
    #[kani::proof]
    #[kani::unwind(10)]
    fn q_input_step_def() {
        input_step::<CfgDef>();
    }

    // ------------------------------------------------------------------ discard / confirmed_input / reset

    /// discard_confirmed_frames never removes a frame >= min(arg, last requested) and keeps contents.
    #[kani::proof]
    #[kani::unwind(10)]
    fn q_discard_step() {
        let (mut q, g) = any_queue::<CfgRL>();
        kani::assume(inv(&q, &g));
        kani::assume(q.last_added_frame != NULL_FRAME);
        let frame: Frame = kani::any();
        kani::assume(frame >= NULL_FRAME && frame < MAX_FRAME);
        let la = q.last_added_frame;
        let lr = q.last_requested_frame;
        let first = first_frame_of(&q);
        let eff = if lr != NULL_FRAME && lr < frame { lr } else { frame };
        // call precondition for a live queue (asserted in S-level harnesses for connected players)
        kani::assume(eff < la);
        let mut old = [(NULL_FRAME, 0u8); N];
        let mut s = 0;
        while s < N {
            old[s] = (q.inputs[s].frame, q.inputs[s].input);
            s += 1;
        }
        q.discard_confirmed_frames(frame);
        let new_first = first_frame_of(&q);
        assert!(q.last_added_frame == la);
        assert!(new_first == if eff > first { eff } else { first });
        let mut s = 0;
        while s < N {
            assert!(q.inputs[s].frame == old[s].0 && q.inputs[s].input == old[s].1);
            s += 1;
        }
        kani::cover!(new_first > first, "frames discarded");
        kani::cover!(lr != NULL_FRAME && lr < frame, "discard capped by the last requested frame");
        assert!(inv(&q, &g));
        core::mem::forget(q);
    }

    /// confirmed_input(f) returns exactly the stored input for every frame in the window.
    #[kani::proof]
    #[kani::unwind(10)]
    fn q_confirmed_input_step() {
        let (q, g) = any_queue::<CfgRL>();
        kani::assume(inv(&q, &g));
        kani::assume(q.last_added_frame != NULL_FRAME);
        let f: Frame = kani::any();
        kani::assume(f >= first_frame_of(&q) && f <= q.last_added_frame);
        let want = value_of(&q, f);
        let r = q.confirmed_input(f);
        assert!(r.frame == f && r.input == want);
        kani::cover!(f < q.last_added_frame, "older frame");
        core::mem::forget(q);
    }

    /// reset_prediction leaves prediction mode, keeps the stored inputs and the invariant.
    #[kani::proof]
    #[kani::unwind(10)]
    fn q_reset_step() {
        let (mut q, g) = any_queue::<CfgRL>();
        kani::assume(inv(&q, &g));
        let la = q.last_added_frame;
        let len0 = q.length;
        q.reset_prediction();
        assert!(q.prediction.frame == NULL_FRAME && q.first_incorrect_frame == NULL_FRAME);
        assert!(q.last_requested_frame == NULL_FRAME && q.last_added_frame == la && q.length == len0);
        assert!(inv(&q, &g));
        kani::cover!(la != NULL_FRAME, "live queue");
        core::mem::forget(q);
    }

    // ------------------------------------------------------------------ set_frame_delay (C11)

    /// What `set_frame_delay` announces as fills is exactly what the queue itself stores for those
    /// frames when the next input is added (steady state: no un-drained decrease pending).
    #[kani::proof]
    #[kani::unwind(10)]
    fn q_delay_increase_steady() {
        let (mut q, g) = any_queue::<CfgRL>();
        kani::assume(inv(&q, &g));
        let la = q.last_added_frame;
        let lu = q.last_user_frame;
        let d0 = q.frame_delay;
        kani::assume(la != NULL_FRAME && la == lu + d0 as Frame); // steady state
        kani::assume(q.prediction.frame == NULL_FRAME);
        let d1: usize = kani::any();
        kani::assume(d1 <= MAX_DELAY);
        let newest = value_of(&q, la);
        let fills = q.set_frame_delay(d1);
        assert!(q.frame_delay == d1);
        if d1 <= d0 {
            assert!(fills.is_empty());
        } else {
            assert!(fills.len() == d1 - d0);
        }
        let v: u8 = kani::any();
        kani::assume(q.length + (d1 + 1) <= N);
        kani::assume(lu + 1 + (d1 as Frame) < MAX_FRAME); // frame-counter bound of the claim
        let r = q.add_input(PlayerInput::new(lu + 1, v));
        if d1 < d0 {
            assert!(r == NULL_FRAME);
            kani::cover!(true, "decrease drops the next submission");
        } else {
            assert!(r == lu + 1 + d1 as Frame);
            // announced fills == stored fills, consecutive from la+1, ending right before r
            let mut i = 0;
            while i < fills.len() {
                let ff = fills[i];
                assert!(ff.frame == la + 1 + i as Frame);
                assert!(ff.input == newest);
                assert!(q.inputs[ff.frame as usize % N].frame == ff.frame);
                assert!(q.inputs[ff.frame as usize % N].input == ff.input);
                i += 1;
            }
            assert!(la + 1 + fills.len() as Frame == r);
            kani::cover!(fills.len() == 2, "two fills");
        }
        assert!(inv(&q, &g));
        core::mem::forget(fills);
        core::mem::forget(q);
    }

    /// Delay changes BEFORE the player's first input (fresh queue at any configured delay d0, then any d1): nothing is
    /// announced as a fill - there is no input to repeat and the peers apply the default input until the delay has
    /// elapsed - and the first input lands on frame d1 with exactly the frames 0..d1 blank before it, so what the
    /// owner stores is what the peers assume.
    #[kani::proof]
    #[kani::unwind(10)]
    fn q_delay_before_first_input() {
        let mut q = InputQueue::<CfgRL>::new();
        let d0: usize = kani::any();
        let d1: usize = kani::any();
        kani::assume(d0 <= MAX_DELAY && d1 <= MAX_DELAY);
        let f0 = q.set_frame_delay(d0);
        assert!(f0.is_empty(), "C11: nothing to announce when the delay is configured");
        let f1 = q.set_frame_delay(d1);
        assert!(f1.is_empty(), "C11: no fills are announced before the first input");
        assert!(q.frame_delay == d1);
        let v: u8 = kani::any();
        let r = q.add_input(PlayerInput::new(0, v));
        assert!(r == d1 as Frame, "the first input lands on frame d1");
        let mut f = 0;
        while f < d1 {
            assert!(q.inputs[f % N].frame == f as Frame && q.inputs[f % N].input == 0, "default input before the delay has elapsed");
            f += 1;
        }
        assert!(q.inputs[d1 % N] == PlayerInput::new(d1 as Frame, v));
        assert!(q.last_added_frame == d1 as Frame && q.length == d1 + 1);
        kani::cover!(d0 > 0 && d1 > d0, "configured delay raised before the first input");
        kani::cover!(d1 < d0, "configured delay lowered before the first input");
        core::mem::forget(f0);
        core::mem::forget(f1);
        core::mem::forget(q);
    }

    fn delay_twice(d0: usize, d1: usize, d2: usize) {
        let (mut q, g) = any_queue::<CfgRL>();
        kani::assume(inv(&q, &g));
        let la = q.last_added_frame;
        let lu = q.last_user_frame;
        kani::assume(q.frame_delay == d0);
        kani::assume(la != NULL_FRAME && la == lu + d0 as Frame); // steady state
        kani::assume(q.prediction.frame == NULL_FRAME);
        let newest = value_of(&q, la);
        let fills1 = q.set_frame_delay(d1);
        let fills2 = q.set_frame_delay(d2);
        kani::assume(q.length + 5 <= N);
        kani::assume(lu + 6 < MAX_FRAME);
        let v: u8 = kani::any();
        let r = q.add_input(PlayerInput::new(lu + 1, v));
        // the frames the owner's queue filled in: la+1 ..= r-1 (none if the submission was dropped)
        let filled: usize = if r == NULL_FRAME { 0 } else { (r - la - 1) as usize };
        // what was announced to the peers, in order
        let announced = fills1.len() + fills2.len();
        assert!(announced == filled, "C11: announced fill frames == frames the owner fills");
        let mut i = 0;
        while i < announced {
            let ff = if i < fills1.len() { fills1[i] } else { fills2[i - fills1.len()] };
            assert!(ff.frame == la + 1 + i as Frame, "C11: announced fills are gapless and each frame once");
            assert!(ff.input == newest);
            i += 1;
        }
        assert!(inv(&q, &g));
        kani::cover!(true, "reached");
        core::mem::forget(fills1);
        core::mem::forget(fills2);
        core::mem::forget(q);
    }

    macro_rules! delay_twice_case {
        ($name:ident, $d0:expr, $d1:expr, $d2:expr) => {
            /// C11 kernel, two set_frame_delay calls before the next submission, from ANY steady queue
            /// state at delay d0: the fills announced by the two calls together must be exactly the
            /// frames the queue itself fills when the next input arrives, each once, in order, with the
            /// repeated last input. (instance: d0 -> d1 -> d2)
            #[kani::proof]
            #[kani::unwind(10)]
            fn $name() {
                delay_twice($d0, $d1, $d2);
            }
        };
    }
    delay_twice_case!(q_delay_twice_1_2_2_control, 1, 2, 2);
    delay_twice_case!(q_delay_twice_2_0_0_control, 2, 0, 0);
    delay_twice_case!(q_delay_twice_1_2_3, 1, 2, 3);
    delay_twice_case!(q_delay_twice_2_0_3, 2, 0, 3);
    delay_twice_case!(q_delay_twice_1_3_1, 1, 3, 1);
}
