#[cfg(kani)]
mod verif_v {
    //! V — `SpectatorSession` inductive step (C06, C02): from ANY state of the input ring that an
    //! in-order gapless feed produces (newest frame r anywhere in the session, cursor anywhere behind
    //! it, ring wrapped any number of times; ring regenerated to 8 slots) one real `advance_frame`.
    use super::*;
    use crate::network::protocol::verif_u::mk_ep;
    use crate::verif_common::{stub_format, stub_millis, CfgRL, NullSocket};

    const B: usize = SPECTATOR_BUFFER_SIZE;

    /// `advance_frame` begins with `poll_remote_clients()`; with an empty socket that is the host
    /// endpoint's `poll` (decided by the U harnesses) and cannot touch the ring or the cursor. It is
    /// cut out here (stub) so that the replay logic is what the solver sees.
    fn stub_poll<T: Config>(_this: &mut SpectatorSession<T>) {}

    fn any_spectator() -> (SpectatorSession<CfgRL>, Frame, Frame) {
        let r: Frame = kani::any();
        kani::assume(r >= NULL_FRAME && r < (1 << 20));
        let c: Frame = kani::any();
        kani::assume(c >= NULL_FRAME && c <= r);
        spectator_at(r, c)
    }

    fn spectator_at(r: Frame, c: Frame) -> (SpectatorSession<CfgRL>, Frame, Frame) {
        let host = mk_ep::<CfgRL>(vec![0, 1], 2, 1, 2, true);
        let mut s = SpectatorSession::<CfgRL>::new(2, Box::new(NullSocket), host, 1, 1);
        s.state = SessionState::Running;
        // slot i holds the newest frame <= r that is congruent to i (if any), for every player
        let mut i = 0;
        while i < B {
            let back = (r - i as Frame).rem_euclid(B as Frame);
            let g = r - back;
            if r >= 0 && g >= 0 {
                s.inputs[i][0] = PlayerInput::new(g, kani::any());
                s.inputs[i][1] = PlayerInput::new(g, kani::any());
            }
            i += 1;
        }
        s.current_frame = c;
        s.last_recv_frame = r;
        (s, c, r)
    }

    /// One advance_frame from any ring state: the number of AdvanceFrame requests is
    /// min(catchup_speed, frames behind, ring-1) when more than max_frames_behind frames are
    /// buffered and 1 otherwise; the i-th request carries exactly the buffered inputs of frame
    /// cursor+1+i for every player, Disconnected exactly where the host's gossip says the player is
    /// disconnected as of an earlier frame; the cursor advances by the number delivered;
    /// PredictionThreshold iff the next frame has not arrived; SpectatorTooFarBehind iff its slot
    /// has been overwritten - never another frame's inputs.
    fn advance_step(r0: Frame, c0: Frame, mb: usize, cs: usize) {
        let (mut s, c, r) = spectator_at(r0, c0);
        assert!(mb >= 1 && mb < B && cs >= 1);
        s.max_frames_behind = mb;
        s.catchup_speed = cs;
        s.host_connect_status[0] = ConnectionStatus { disconnected: kani::any(), last_frame: kani::any() };
        s.host_connect_status[1] = ConnectionStatus { disconnected: kani::any(), last_frame: kani::any() };
        let hs = [s.host_connect_status[0], s.host_connect_status[1]];
        let behind = (r - c) as usize;
        let mut n = 1usize;
        if behind > mb {
            n = cs;
            if behind < n {
                n = behind;
            }
            if B - 1 < n {
                n = B - 1;
            }
        }
        let first = c + 1;
        let res = s.advance_frame();
        if first > r {
            assert!(matches!(res, Err(GgrsError::PredictionThreshold)), "C06: wait, never invent a frame");
            assert!(s.current_frame == c);
        } else if first <= r - B as Frame {
            assert!(matches!(res, Err(GgrsError::SpectatorTooFarBehind)), "C06: overwritten frame is reported, not replaced");
            assert!(s.current_frame == c);
        } else {
            match res {
                Ok(reqs) => {
                    assert!(reqs.len() == n, "C06: catch-up speed contract");
                    let mut k = 0;
                    while k < n {
                        let f = first + k as Frame;
                        match &reqs[k] {
                            GgrsRequest::AdvanceFrame { inputs } => {
                                assert!(inputs.len() == 2);
                                let slot = f as usize % B;
                                let mut p = 0;
                                while p < 2 {
                                    // (advance_frame takes &mut self but never writes the ring: read it afterwards)
                                    assert!(s.inputs[slot][p].frame == f);
                                    assert!(inputs[p].0 == s.inputs[slot][p].input, "C06: the host's input for exactly this frame");
                                    let disc = hs[p].disconnected && hs[p].last_frame < f;
                                    assert!((inputs[p].1 == InputStatus::Disconnected) == disc);
                                    assert!(disc || inputs[p].1 == InputStatus::Confirmed);
                                    p += 1;
                                }
                            }
                            _ => assert!(false, "C02: a spectator only advances"),
                        }
                        k += 1;
                    }
                    core::mem::forget(reqs);
                    assert!(s.current_frame == c + n as Frame, "C06: cursor advances by the number delivered");
                }
                Err(_) => assert!(false, "buffered frame must be delivered"),
            }
        }
        assert!(s.last_recv_frame == r);
        kani::cover!(true, "verdict reached");
        core::mem::forget(s);
    }

    macro_rules! advance_at {
        ($name:ident, $r:expr, $c:expr, $mb:expr, $cs:expr) => {
            /// (instance: newest received frame, cursor, max_frames_behind, catchup_speed - ring
            /// positions and the resulting request count are concrete; inputs and gossip symbolic)
            #[kani::proof]
            #[kani::unwind(10)]
            #[kani::stub(crate::network::protocol::millis_since_epoch, stub_millis)]
            #[kani::stub(alloc::fmt::format, stub_format)]
            #[kani::stub(crate::sessions::p2p_spectator_session::SpectatorSession::poll_remote_clients, stub_poll)]
            fn $name() {
                advance_step($r, $c, $mb, $cs);
            }
        };
    }
    advance_at!(v_advance_r21_level, 21, 21, 2, 3);
    advance_at!(v_advance_r21_behind1, 21, 20, 2, 3);
    advance_at!(v_advance_r21_behind3_catchup2, 21, 18, 2, 2);
    advance_at!(v_advance_r21_behind3_catchup5, 21, 18, 1, 5);
    advance_at!(v_advance_r21_behind3_patient, 21, 18, 5, 3);
    advance_at!(v_advance_r21_behind5_catchup4, 21, 16, 1, 4);
    advance_at!(v_advance_r21_behind7_catchup9, 21, 14, 3, 9);
    advance_at!(v_advance_r21_behind8_lapped, 21, 13, 3, 2);
    advance_at!(v_advance_r21_behind9_lapped, 21, 12, 3, 2);
    advance_at!(v_advance_r3_start, 3, -1, 2, 2);
    advance_at!(v_advance_nothing_received, -1, -1, 2, 2);

    /// handle_event(Input) for the next frame in order: stored in its slot for that player, newest
    /// frame updated, the host's gossip copied - so the ring shape assumed above is maintained.
    #[kani::proof]
    #[kani::unwind(10)]
    #[kani::stub(crate::network::protocol::millis_since_epoch, stub_millis)]
    #[kani::stub(alloc::fmt::format, stub_format)]
    fn v_input_event_step() {
        let (mut s, c, r) = any_spectator();
        let f = r + 1;
        let v0: u8 = kani::any();
        let v1: u8 = kani::any();
        s.handle_event(Event::Input { input: PlayerInput::new(f, v0), player: 0 }, 9);
        s.handle_event(Event::Input { input: PlayerInput::new(f, v1), player: 1 }, 9);
        let slot = f as usize % B;
        assert!(s.inputs[slot][0].frame == f && s.inputs[slot][0].input == v0);
        assert!(s.inputs[slot][1].frame == f && s.inputs[slot][1].input == v1);
        assert!(s.last_recv_frame == f && s.current_frame == c);
        assert!(s.event_queue.is_empty());
        kani::cover!(slot == 0 && f > 0, "ring wraps");
        core::mem::forget(s);
    }
}
