#[cfg(kani)]
mod verif_m {
    //! M — `TimeSync` (C15): the averaged frame advantage, f32 arithmetic bit-precise.
    use super::*;

    fn small() -> i32 {
        let v: i8 = kani::any();
        kani::assume(v >= -64 && v <= 64);
        v as i32
    }

    /// average_frame_advantage == trunc(((sum remote)/30 - (sum local)/30) / 2) within one frame, and
    /// with its sign once that is at least two frames, for any window contents in -64..=64.
    #[kani::proof]
    #[kani::unwind(32)]
    fn m_average_within_one() {
        let mut t = TimeSync::new();
        let mut sl: i32 = 0;
        let mut sr: i32 = 0;
        let mut i = 0;
        while i < FRAME_WINDOW_SIZE {
            let l = small();
            let r = small();
            t.local[i] = l;
            t.remote[i] = r;
            sl += l;
            sr += r;
            i += 1;
        }
        let a = t.average_frame_advantage();
        let d = sr - sl; // exact value of 2 * 30 * (true average)
        // |a - d/60| <= 1  <=>  |60 a - d| <= 60
        let diff = 60 * a - d;
        assert!(diff >= -60 && diff <= 60);
        // (no sign claim at |d| == 60: each of the two f32 averages is rounded, so a true value of
        //  exactly 1.0 may come out as 0.99999994 and truncate to 0 - still within one frame)
        if d >= 120 {
            assert!(a >= 1);
        }
        if d <= -120 {
            assert!(a <= -1);
        }
        if d == 0 {
            assert!(a == 0);
        }
        kani::cover!(a == 7, "seven frames ahead");
        kani::cover!(a == -7, "seven frames behind");
    }

    /// Steady state: one peer k frames ahead (local advantage -k+e1, remote advantage k+e2 in every
    /// slot, |e| <= 1): the estimate is within one frame of k; level peers give exactly 0.
    #[kani::proof]
    #[kani::unwind(32)]
    fn m_steady_lead() {
        let k: i32 = small();
        kani::assume(k >= -7 && k <= 7);
        let mut t = TimeSync::new();
        let mut i = 0;
        while i < FRAME_WINDOW_SIZE {
            let e1: i8 = kani::any();
            let e2: i8 = kani::any();
            kani::assume(e1 >= -1 && e1 <= 1 && e2 >= -1 && e2 <= 1);
            t.local[i] = -k + e1 as i32;
            t.remote[i] = k + e2 as i32;
            i += 1;
        }
        let a = t.average_frame_advantage();
        assert!(a - k >= -1 && a - k <= 1);
        kani::cover!(k == 7 && a == 7, "lead of seven recovered exactly");
    }

    /// advance_frame stores the two advantages in slot frame % window and nowhere else.
    #[kani::proof]
    #[kani::unwind(32)]
    fn m_advance_frame_slot() {
        let mut t = TimeSync::new();
        let f: Frame = kani::any();
        kani::assume(f >= 0 && f < (1 << 20));
        let l = small();
        let r = small();
        t.advance_frame(f, l, r);
        let s = f as usize % FRAME_WINDOW_SIZE;
        let mut i = 0;
        while i < FRAME_WINDOW_SIZE {
            if i == s {
                assert!(t.local[i] == l && t.remote[i] == r);
            } else {
                assert!(t.local[i] == 0 && t.remote[i] == 0);
            }
            i += 1;
        }
        kani::cover!(s == 29, "last slot");
    }
}
