#[cfg(kani)]
pub(crate) mod verif_u {
    //! U — `UdpProtocol` endpoint harnesses (C05, C07, C08, C12, C15, C18). One endpoint with a
    //! symbolic state built by struct literal; one real handler call; contract asserted.
    //! Time is the virtual clock (`instant` stand-in), so timers are arithmetic constraints.
    use super::*;
    use crate::verif_common::{stub_millis, CfgRL};

    pub(crate) const MAGIC_LOCAL: u16 = 7;
    pub(crate) const MAGIC_REMOTE: u16 = 9;

    /// Endpoint for `handles` (1-byte inputs), built with the REAL constructor (so that fields added by a
    /// later refactoring get their real initial values) and then put into the state the harnesses start
    /// from: Running with the peer's magic pinned (or Synchronizing), fixed own magic, pre-sized queues
    /// (capacity is only an allocation hint: no reallocation on symbolic paths).
    pub(crate) fn mk_ep<T: Config<Address = u8>>(
        handles: Vec<PlayerHandle>,
        num_players: usize,
        local_bytes: usize,
        max_prediction: usize,
        state_running: bool,
    ) -> UdpProtocol<T> {
        let recv_bytes = handles.len();
        let mut ep = UdpProtocol::<T>::new(
            handles,
            9,
            num_players,
            local_bytes,
            max_prediction,
            Duration::from_millis(2000),
            Duration::from_millis(500),
            60,
            DesyncDetection::Off,
        );
        ep.state = if state_running { ProtocolState::Running } else { ProtocolState::Synchronizing };
        ep.magic = MAGIC_LOCAL;
        ep.remote_magic = if state_running { MAGIC_REMOTE } else { 0 };
        core::mem::forget(core::mem::replace(&mut ep.send_queue, VecDeque::with_capacity(8)));
        core::mem::forget(core::mem::replace(&mut ep.event_queue, VecDeque::with_capacity(8)));
        core::mem::forget(core::mem::replace(&mut ep.pending_output, VecDeque::with_capacity(8)));
        // (inputs are one byte per player in every instantiation used here)
        ep.last_acked_input = InputBytes { frame: NULL_FRAME, bytes: vec![0; local_bytes] };
        ep.recv_inputs.clear();
        ep.recv_inputs.insert(NULL_FRAME, InputBytes { frame: NULL_FRAME, bytes: vec![0; recv_bytes] });
        ep
    }

    // ---- setters/observers for the harnesses of other modules (fields are private to this module)
    pub(crate) fn set_peer_addr<T: Config>(ep: &mut UdpProtocol<T>, a: T::Address) {
        ep.peer_addr = a;
    }
    pub(crate) fn set_peer_status<T: Config>(ep: &mut UdpProtocol<T>, h: usize, cs: ConnectionStatus) {
        ep.peer_connect_status[h] = cs;
    }
    pub(crate) fn set_running<T: Config>(ep: &mut UdpProtocol<T>, running: bool) {
        ep.state = if running { ProtocolState::Running } else { ProtocolState::Synchronizing };
    }
    /// 0 Running, 1 Synchronizing, 2 Disconnected, 3 Shutdown
    pub(crate) fn set_state<T: Config>(ep: &mut UdpProtocol<T>, st: u8) {
        ep.state = match st {
            0 => ProtocolState::Running,
            1 => ProtocolState::Synchronizing,
            2 => ProtocolState::Disconnected,
            _ => ProtocolState::Shutdown,
        };
    }
    pub(crate) fn pending_len<T: Config>(ep: &UdpProtocol<T>) -> usize {
        ep.pending_output.len()
    }
    pub(crate) fn pending_frame<T: Config>(ep: &UdpProtocol<T>, i: usize) -> (Frame, u8) {
        (ep.pending_output[i].frame, ep.pending_output[i].bytes[0])
    }
    pub(crate) fn sendq_len<T: Config>(ep: &UdpProtocol<T>) -> usize {
        ep.send_queue.len()
    }
    pub(crate) fn is_disconnected_state<T: Config>(ep: &UdpProtocol<T>) -> bool {
        ep.state == ProtocolState::Disconnected
    }

    /// fills the whole time-sync window with one (local, remote) advantage pair
    pub(crate) fn fill_advantage<T: Config>(ep: &mut UdpProtocol<T>, local: i32, remote: i32) {
        let mut f = 0;
        while f < 30 {
            ep.time_sync_layer.advance_frame(f, local, remote);
            f += 1;
        }
    }
    pub(crate) fn push_checksum<T: Config>(ep: &mut UdpProtocol<T>, frame: Frame, checksum: u128) {
        ep.pending_checksums.insert(frame, checksum);
    }
    pub(crate) fn has_checksum<T: Config>(ep: &UdpProtocol<T>, frame: Frame) -> bool {
        ep.pending_checksums.contains_key(&frame)
    }

    pub(crate) fn last_recv_ms<T: Config>(ep: &UdpProtocol<T>) -> u64 {
        ep.last_recv_time.as_ms()
    }
    /// any message of the kinds that carry no heap data, with any magic
    pub(crate) fn any_message() -> Message {
        Message { header: MessageHeader { magic: kani::any() }, body: any_body() }
    }

    fn msg(magic: u16, body: MessageBody) -> Message {
        Message { header: MessageHeader { magic }, body }
    }

    /// a symbolic millisecond count built from 16 symbolic bits (keeps the clock arithmetic narrow)
    fn any_small_ms(max: u64) -> u64 {
        let v = kani::any::<u16>() as u64;
        kani::assume(v <= max);
        v
    }

    // ------------------------------------------------------------------ timers (C07, C12)

    /// poll() on a Running endpoint, timings symbolic (silence 0..10 s, notify delay and timeout
    /// 0..4 s): NetworkInterrupted is emitted iff not yet announced and the silence is strictly
    /// longer than the notify delay - never earlier - carries (timeout - notify), sets the flag,
    /// and a second poll at the same instant emits nothing.
    #[kani::proof]
    #[kani::unwind(6)]
    #[kani::stub(crate::network::protocol::millis_since_epoch, stub_millis)]
    fn u_poll_interrupt_timer() {
        let now = 100_000u64; // only differences matter
        instant::set_now_ms(now);
        let mut ep = mk_ep::<CfgRL>(vec![1], 2, 1, 2, true);
        let silence = any_small_ms(10_000);
        let notify = any_small_ms(4000);
        let timeout = any_small_ms(4000);
        ep.last_recv_time = Instant::from_ms(now - silence);
        ep.disconnect_notify_start = Duration::from_millis(notify);
        ep.disconnect_timeout = Duration::from_millis(timeout);
        ep.disconnect_notify_sent = kani::any();
        ep.disconnect_event_sent = true; // the Disconnected timer is u_poll_disconnect_timer's subject
        let n0 = ep.disconnect_notify_sent;
        let cs = [ConnectionStatus::default(); 2];
        let want = !n0 && silence > notify;
        {
            let mut d = ep.poll(&cs);
            if want {
                match d.next() {
                    // (the payload is decided for concrete settings by u_poll_interrupt_payload_*: proving
                    //  (t*1000 - n*1000)/1000 == t - n for symbolic t, n stalls the SAT back end)
                    Some(Event::NetworkInterrupted { .. }) => {}
                    _ => assert!(false, "expected NetworkInterrupted"),
                }
            }
            assert!(d.next().is_none(), "no other event");
            core::mem::forget(d); // Drain's drop glue copies with a symbolic length; not the subject
        }
        assert!(ep.disconnect_notify_sent == (n0 || want));
        {
            let mut d2 = ep.poll(&cs);
            assert!(d2.next().is_none());
            core::mem::forget(d2);
        }
        kani::cover!(want, "interrupted");
        kani::cover!(!n0 && silence == notify, "exactly at the notify delay: not yet");
        core::mem::forget(ep);
    }

    /// poll(): Disconnected is emitted iff not yet sent and the silence is strictly longer than the
    /// disconnect timeout (never after only timeout - notify), once.
    #[kani::proof]
    #[kani::unwind(6)]
    #[kani::stub(crate::network::protocol::millis_since_epoch, stub_millis)]
    fn u_poll_disconnect_timer() {
        let now = 100_000u64;
        instant::set_now_ms(now);
        let mut ep = mk_ep::<CfgRL>(vec![1], 2, 1, 2, true);
        let silence = any_small_ms(10_000);
        let notify = any_small_ms(4000);
        let timeout = any_small_ms(4000);
        ep.last_recv_time = Instant::from_ms(now - silence);
        ep.disconnect_notify_start = Duration::from_millis(notify);
        ep.disconnect_timeout = Duration::from_millis(timeout);
        ep.disconnect_notify_sent = true;
        ep.disconnect_event_sent = kani::any();
        let e0 = ep.disconnect_event_sent;
        let cs = [ConnectionStatus::default(); 2];
        let want = !e0 && silence > timeout;
        {
            let mut d = ep.poll(&cs);
            if want {
                assert!(matches!(d.next(), Some(Event::Disconnected)));
            }
            assert!(d.next().is_none(), "no other event");
            core::mem::forget(d);
        }
        assert!(ep.disconnect_event_sent == (e0 || want));
        {
            let mut d2 = ep.poll(&cs);
            assert!(d2.next().is_none());
            core::mem::forget(d2);
        }
        kani::cover!(want, "disconnected");
        kani::cover!(!e0 && silence == timeout, "exactly at the timeout: not yet");
        kani::cover!(!e0 && notify > 0 && silence + notify > timeout && silence <= timeout, "timeout - notify < silence <= timeout: not yet");
        core::mem::forget(ep);
    }

    macro_rules! interrupt_payload {
        ($name:ident, $notify:expr, $timeout:expr, $rest:expr) => {
            /// NetworkInterrupted carries the time that remains until the disconnect
            /// (timeout - notify delay, saturating), for this concrete setting and any silence.
            #[kani::proof]
            #[kani::unwind(6)]
            #[kani::stub(crate::network::protocol::millis_since_epoch, stub_millis)]
            fn $name() {
                instant::set_now_ms(100_000);
                let mut ep = mk_ep::<CfgRL>(vec![1], 2, 1, 2, true);
                let silence = any_small_ms(10_000);
                kani::assume(silence > $notify);
                ep.last_recv_time = Instant::from_ms(100_000 - silence);
                ep.disconnect_notify_start = Duration::from_millis($notify);
                ep.disconnect_timeout = Duration::from_millis($timeout);
                ep.disconnect_event_sent = true;
                let cs = [ConnectionStatus::default(); 2];
                let mut d = ep.poll(&cs);
                match d.next() {
                    Some(Event::NetworkInterrupted { disconnect_timeout }) => assert!(disconnect_timeout == $rest),
                    _ => assert!(false),
                }
                core::mem::forget(d);
                kani::cover!(true, "reached");
                core::mem::forget(ep);
            }
        };
    }
    interrupt_payload!(u_poll_interrupt_payload_default, 500, 2000, 1500);
    interrupt_payload!(u_poll_interrupt_payload_zero, 0, 0, 0);
    interrupt_payload!(u_poll_interrupt_payload_saturating, 3000, 1000, 0);
    interrupt_payload!(u_poll_interrupt_payload_one, 1, 4000, 3999);

    /// poll(): when both deadlines have passed, NetworkInterrupted precedes Disconnected.
    #[kani::proof]
    #[kani::unwind(6)]
    #[kani::stub(crate::network::protocol::millis_since_epoch, stub_millis)]
    fn u_poll_both_in_order() {
        instant::set_now_ms(100_000);
        let mut ep = mk_ep::<CfgRL>(vec![1], 2, 1, 2, true);
        ep.last_recv_time = Instant::from_ms(97_000);
        let cs = [ConnectionStatus::default(); 2];
        let mut d = ep.poll(&cs);
        assert!(matches!(d.next(), Some(Event::NetworkInterrupted { disconnect_timeout: 1500 })));
        assert!(matches!(d.next(), Some(Event::Disconnected)));
        assert!(d.next().is_none());
        core::mem::forget(d);
        kani::cover!(true, "reached");
        core::mem::forget(ep);
    }

    // ------------------------------------------------------------------ liveness / magic filter (C08, C12)

    fn any_body() -> MessageBody {
        let k: u8 = kani::any();
        match k % 6 {
            0 => MessageBody::KeepAlive,
            1 => MessageBody::InputAck(InputAck { ack_frame: kani::any() }),
            2 => MessageBody::SyncRequest(SyncRequest { random_request: kani::any() }),
            3 => MessageBody::SyncReply(SyncReply { random_reply: kani::any() }),
            4 => MessageBody::QualityReply(QualityReply { pong: kani::any::<u64>() as u128 }),
            _ => MessageBody::QualityReport(QualityReport { frame_advantage: kani::any(), ping: kani::any::<u64>() as u128 }),
        }
    }

    /// A packet carrying another session's magic number (after the handshake fixed the peer's) has
    /// no effect at all: not counted as a sign of life, no event, no reply, no state change.
    #[kani::proof]
    #[kani::unwind(6)]
    #[kani::stub(crate::network::protocol::millis_since_epoch, stub_millis)]
    #[kani::stub(crate::network::compression::decode, crate::verif_common::stub_decode_err)]
    #[kani::stub(alloc::fmt::format, crate::verif_common::stub_format)]
    fn u_foreign_magic_ignored() {
        instant::set_now_ms(50_000);
        let mut ep = mk_ep::<CfgRL>(vec![1], 2, 1, 2, true);
        ep.last_recv_time = Instant::from_ms(40_000);
        ep.disconnect_notify_sent = kani::any();
        let n0 = ep.disconnect_notify_sent;
        let magic: u16 = kani::any();
        kani::assume(magic != MAGIC_REMOTE);
        let m = msg(magic, any_body());
        ep.handle_message(&m);
        assert!(ep.last_recv_time.as_ms() == 40_000, "foreign packet must not refresh the receive timer");
        assert!(ep.event_queue.is_empty() && ep.send_queue.is_empty());
        assert!(ep.disconnect_notify_sent == n0 && ep.state == ProtocolState::Running);
        assert!(ep.remote_frame_advantage == 0 && ep.round_trip_time == 0);
        kani::cover!(magic == 0, "magic 0");
        core::mem::forget(m);
        core::mem::forget(ep);
    }

    /// A packet with the peer's magic is a sign of life: receive timer refreshed; NetworkResumed is
    /// raised iff an interruption had been announced (and the flag is cleared) - strict alternation.
    #[kani::proof]
    #[kani::unwind(6)]
    #[kani::stub(crate::network::protocol::millis_since_epoch, stub_millis)]
    #[kani::stub(crate::network::compression::decode, crate::verif_common::stub_decode_err)]
    #[kani::stub(alloc::fmt::format, crate::verif_common::stub_format)]
    fn u_liveness_and_resume() {
        instant::set_now_ms(50_000);
        let mut ep = mk_ep::<CfgRL>(vec![1], 2, 1, 2, true);
        ep.last_recv_time = Instant::from_ms(40_000);
        ep.disconnect_notify_sent = kani::any();
        let n0 = ep.disconnect_notify_sent;
        let m = msg(MAGIC_REMOTE, MessageBody::KeepAlive);
        ep.handle_message(&m);
        assert!(ep.last_recv_time.as_ms() == 50_000);
        assert!(!ep.disconnect_notify_sent);
        if n0 {
            assert!(ep.event_queue.len() == 1 && matches!(ep.event_queue[0], Event::NetworkResumed));
        } else {
            assert!(ep.event_queue.is_empty());
        }
        kani::cover!(n0, "resumed");
        core::mem::forget(m);
        core::mem::forget(ep);
    }

    /// After the endpoint has left the Running state (disconnected, waiting for shutdown) a late
    /// packet from the peer raises no NetworkResumed: nothing follows Disconnected for that address.
    #[kani::proof]
    #[kani::unwind(6)]
    #[kani::stub(crate::network::protocol::millis_since_epoch, stub_millis)]
    #[kani::stub(crate::network::compression::decode, crate::verif_common::stub_decode_err)]
    #[kani::stub(alloc::fmt::format, crate::verif_common::stub_format)]
    fn u_no_resume_after_disconnect() {
        instant::set_now_ms(50_000);
        let mut ep = mk_ep::<CfgRL>(vec![1], 2, 1, 2, true);
        ep.disconnect_notify_sent = true;
        ep.disconnect_event_sent = true;
        ep.disconnect();
        assert!(ep.state == ProtocolState::Disconnected);
        let m = msg(MAGIC_REMOTE, MessageBody::KeepAlive);
        ep.handle_message(&m);
        assert!(ep.event_queue.is_empty(), "no lifecycle event after Disconnected");
        // and the poll of a disconnected endpoint raises nothing either
        let cs = [ConnectionStatus::default(); 2];
        {
            let mut d = ep.poll(&cs);
            assert!(d.next().is_none());
            core::mem::forget(d);
        }
        kani::cover!(true, "reached");
        core::mem::forget(m);
        core::mem::forget(ep);
    }

    // ------------------------------------------------------------------ malformed input packets (C08)

    fn any_statuses(len: usize) -> Vec<ConnectionStatus> {
        let mut v = Vec::new();
        let mut i = 0;
        while i < len {
            v.push(ConnectionStatus { disconnected: kani::any(), last_frame: kani::any() });
            i += 1;
        }
        v
    }

    /// snapshot of everything an input packet could influence
    struct Snap {
        pending: usize,
        acked: Frame,
        last_recv: Frame,
        recv_len: usize,
        pcs: [ConnectionStatus; 2],
        sendq: usize,
        evq: usize,
        state_running: bool,
        ev_sent: bool,
    }
    fn snap(ep: &UdpProtocol<CfgRL>) -> Snap {
        Snap {
            pending: ep.pending_output.len(),
            acked: ep.last_acked_input.frame,
            last_recv: ep.last_recv_frame(),
            recv_len: ep.recv_inputs.len(),
            pcs: [ep.peer_connect_status[0], ep.peer_connect_status[1]],
            sendq: ep.send_queue.len(),
            evq: ep.event_queue.len(),
            state_running: ep.state == ProtocolState::Running,
            ev_sent: ep.disconnect_event_sent,
        }
    }
    fn unchanged(ep: &UdpProtocol<CfgRL>, s: &Snap) -> bool {
        ep.pending_output.len() == s.pending
            && ep.last_acked_input.frame == s.acked
            && ep.last_recv_frame() == s.last_recv
            && ep.recv_inputs.len() == s.recv_len
            && ep.peer_connect_status[0] == s.pcs[0]
            && ep.peer_connect_status[1] == s.pcs[1]
            && ep.send_queue.len() == s.sendq
            && ep.event_queue.len() == s.evq
            && (ep.state == ProtocolState::Running) == s.state_running
            && ep.disconnect_event_sent == s.ev_sent
    }

    /// endpoint in the middle of a session: two unacknowledged outputs (frames 5, 6), inputs received up to frame 3
    fn running_mid_session() -> UdpProtocol<CfgRL> {
        let mut ep = mk_ep::<CfgRL>(vec![1], 2, 1, 2, true);
        ep.last_acked_input = InputBytes { frame: 4, bytes: vec![1] };
        ep.pending_output.push_back(InputBytes { frame: 5, bytes: vec![2] });
        ep.pending_output.push_back(InputBytes { frame: 6, bytes: vec![3] });
        ep.recv_inputs.clear();
        ep.recv_inputs.insert(2, InputBytes { frame: 2, bytes: vec![kani::any()] });
        ep.recv_inputs.insert(3, InputBytes { frame: 3, bytes: vec![kani::any()] });
        ep
    }

    /// Input packet with the wrong number of connection statuses (0, 1 or 3 instead of 2), any other
    /// field arbitrary: dropped without any effect - no ack processed, no gossip merged, no input
    /// delivered, no reply queued.
    #[kani::proof]
    #[kani::unwind(6)]
    #[kani::stub(crate::network::protocol::millis_since_epoch, stub_millis)]
    #[kani::stub(crate::network::compression::decode, crate::verif_common::stub_decode_err)]
    #[kani::stub(alloc::fmt::format, crate::verif_common::stub_format)]
    fn u_input_wrong_status_count_dropped() {
        let mut ep = running_mid_session();
        let s0 = snap(&ep);
        let n: usize = kani::any();
        kani::assume(n <= 3 && n != 2);
        let body = Input {
            peer_connect_status: any_statuses(n),
            disconnect_requested: false,
            start_frame: kani::any(),
            ack_frame: kani::any(),
            bytes: Vec::new(),
        };
        let m = msg(MAGIC_REMOTE, MessageBody::Input(body));
        ep.handle_message(&m);
        assert!(unchanged(&ep, &s0));
        kani::cover!(n == 3, "too many statuses");
        kani::cover!(n == 0, "no statuses");
        core::mem::forget(m);
        core::mem::forget(ep);
    }

    /// Input packet with ANY negative start frame (well-formed otherwise, even acknowledging
    /// everything and gossiping disconnects): dropped without any effect.
    #[kani::proof]
    #[kani::unwind(6)]
    #[kani::stub(crate::network::protocol::millis_since_epoch, stub_millis)]
    #[kani::stub(crate::network::compression::decode, crate::verif_common::stub_decode_err)]
    #[kani::stub(alloc::fmt::format, crate::verif_common::stub_format)]
    fn u_input_negative_start_dropped() {
        let mut ep = running_mid_session();
        let s0 = snap(&ep);
        let sf: Frame = kani::any();
        kani::assume(sf < 0);
        let body = Input {
            peer_connect_status: any_statuses(2),
            disconnect_requested: kani::any(),
            start_frame: sf,
            ack_frame: kani::any(),
            bytes: Vec::new(),
        };
        let m = msg(MAGIC_REMOTE, MessageBody::Input(body));
        ep.handle_message(&m);
        assert!(unchanged(&ep, &s0));
        kani::cover!(sf == NULL_FRAME, "the sentinel");
        kani::cover!(sf < -1, "another negative frame");
        core::mem::forget(m);
        core::mem::forget(ep);
    }
}
