#[cfg(kani)]
pub(crate) mod verif_u2 {
    //! U (part 2) — the input stream across one endpoint: in-order exactly-once delivery, acks,
    //! retransmission after lost acks, pending-output cap (C01, C05, C12, C18).
    //! `compression::decode`/`encode` are stubbed (decided by the K harnesses): decode returns the
    //! k one-byte inputs the harness put on a tape.
    use super::verif_u::{mk_ep, MAGIC_REMOTE};
    use super::*;
    use crate::verif_common::{stub_encode, stub_format, stub_millis, CfgRL};
    use std::sync::atomic::{AtomicU8, AtomicUsize, Ordering};

    static DEC_N: AtomicUsize = AtomicUsize::new(0);
    static DEC_V: [AtomicU8; 3] = [AtomicU8::new(0), AtomicU8::new(0), AtomicU8::new(0)];

    fn stub_decode_tape(
        _reference: &[u8],
        _data: &[u8],
    ) -> Result<Vec<Vec<u8>>, Box<dyn std::error::Error + Send + Sync>> {
        let n = DEC_N.load(Ordering::Relaxed);
        let mut out = Vec::with_capacity(3);
        let mut i = 0;
        while i < n {
            out.push(vec![DEC_V[i].load(Ordering::Relaxed)]);
            i += 1;
        }
        Ok(out)
    }

    static ACKS: AtomicUsize = AtomicUsize::new(0);
    /// stand-in for `send_input_ack` where the ack message itself is not the subject: counts calls
    fn stub_send_input_ack<T: Config>(_this: &mut UdpProtocol<T>) {
        ACKS.store(ACKS.load(Ordering::Relaxed) + 1, Ordering::Relaxed);
    }
    /// stand-in for `to_player_inputs` on paths where nothing may be decoded anyway
    fn stub_to_player_inputs_err<T: Config>(
        _this: &InputBytes,
        _n: usize,
    ) -> Result<Vec<PlayerInput<T::Input>>, String> {
        Err(String::new())
    }

    fn input_msg(start: Frame, ack: Frame) -> Message {
        Message {
            header: MessageHeader { magic: MAGIC_REMOTE },
            body: MessageBody::Input(Input {
                peer_connect_status: vec![ConnectionStatus::default(); 2],
                disconnect_requested: false,
                start_frame: start,
                ack_frame: ack,
                bytes: Vec::new(),
            }),
        }
    }

    /// receiver that has received up to frame l and kept what its own pruning leaves (frames >= l - 2w)
    fn receiver_at(l: Frame, w: usize) -> UdpProtocol<CfgRL> {
        let mut ep = mk_ep::<CfgRL>(vec![1], 2, 1, w, true);
        ep.recv_inputs.clear();
        let mut f = l - 2 * w as Frame;
        while f <= l {
            if f >= 0 {
                ep.recv_inputs.insert(f, InputBytes { frame: f, bytes: vec![0] });
            }
            f += 1;
        }
        ep
    }

    static BAD_AT: AtomicUsize = AtomicUsize::new(9);
    /// decode stand-in for a two-player endpoint: k frames of two bytes each, except frame BAD_AT which has ONE byte
    fn stub_decode_tape_bad_size(
        _reference: &[u8],
        _data: &[u8],
    ) -> Result<Vec<Vec<u8>>, Box<dyn std::error::Error + Send + Sync>> {
        let n = DEC_N.load(Ordering::Relaxed);
        let bad = BAD_AT.load(Ordering::Relaxed);
        let mut out = Vec::with_capacity(3);
        let mut i = 0;
        while i < n {
            let v = DEC_V[i].load(Ordering::Relaxed);
            if i == bad {
                out.push(vec![v]);
            } else {
                out.push(vec![v, v ^ 0x55]);
            }
            i += 1;
        }
        Ok(out)
    }

    macro_rules! wrong_size_frame {
        ($name:ident, $k:expr, $bad:expr) => {
            /// C08 "decoded frames of the wrong size": a header-valid packet of k decoded frames for a two-player
            /// endpoint, of which frame number `bad` has a byte count that is not divisible by the player count: the
            /// frames before it are delivered in order (they were well formed), the bad frame and EVERYTHING AFTER IT is
            /// dropped - no gap is ever opened in the stream, nothing of a later frame is remembered, the newest
            /// received frame stops right before the bad one - and the truncated packet is not acknowledged, so the
            /// honest retransmission is accepted afterwards. (instance: k, bad; values symbolic)
            #[kani::proof]
            #[kani::unwind(8)]
            #[kani::stub(crate::network::protocol::millis_since_epoch, stub_millis)]
            #[kani::stub(crate::network::compression::decode, stub_decode_tape_bad_size)]
            #[kani::stub(alloc::fmt::format, stub_format)]
            #[kani::stub(crate::network::protocol::UdpProtocol::send_input_ack, stub_send_input_ack)]
            fn $name() {
                let l: Frame = 5;
                let k: usize = $k;
                let bad: usize = $bad;
                let mut ep = mk_ep::<CfgRL>(vec![1, 2], 3, 1, 1, true);
                ep.recv_inputs.clear();
                ep.recv_inputs.insert(4, InputBytes { frame: 4, bytes: vec![0, 0] });
                ep.recv_inputs.insert(5, InputBytes { frame: 5, bytes: vec![0, 0] });
                let vals: [u8; 3] = kani::any();
                ACKS.store(0, Ordering::Relaxed);
                DEC_N.store(k, Ordering::Relaxed);
                BAD_AT.store(bad, Ordering::Relaxed);
                DEC_V[0].store(vals[0], Ordering::Relaxed);
                DEC_V[1].store(vals[1], Ordering::Relaxed);
                DEC_V[2].store(vals[2], Ordering::Relaxed);
                let mut m = input_msg(l + 1, NULL_FRAME);
                if let MessageBody::Input(b) = &mut m.body {
                    core::mem::forget(core::mem::replace(&mut b.peer_connect_status, vec![ConnectionStatus::default(); 3]));
                }
                ep.handle_message(&m);
                assert!(ep.last_recv_frame() == l + bad as Frame, "C08: the stream stops right before the malformed frame");
                assert!(ep.event_queue.len() == 2 * bad, "only the well-formed frames before it are delivered (two players each)");
                let mut i = 0;
                while i < bad {
                    let f = l + 1 + i as Frame;
                    match (&ep.event_queue[2 * i], &ep.event_queue[2 * i + 1]) {
                        (Event::Input { input: a, player: pa }, Event::Input { input: b, player: pb }) => {
                            assert!(*pa == 1 && *pb == 2 && a.frame == f && b.frame == f);
                            assert!(a.input == vals[i] && b.input == vals[i] ^ 0x55);
                        }
                        _ => assert!(false, "only input events"),
                    }
                    i += 1;
                }
                let mut f = l + bad as Frame + 1;
                while f <= l + k as Frame {
                    assert!(!ep.recv_inputs.contains_key(&f), "C08: nothing at or after the malformed frame is remembered (no gap)");
                    f += 1;
                }
                assert!(ACKS.load(Ordering::Relaxed) == 0, "the truncated packet is not acknowledged");
                kani::cover!(true, "verdict reached");
                core::mem::forget(m);
                core::mem::forget(ep);
            }
        };
    }
    wrong_size_frame!(u_on_input_wrong_size_first_of_two, 2, 0);
    // (NOT REGISTERED: the instance with one well-formed frame delivered before the malformed one runs the solver out of
    //  memory - 14 GB cap hit after 350 s of symex, > 19 GB after 200 s of solving with a 30 GB cap)
    wrong_size_frame!(u_on_input_wrong_size_second_of_two, 2, 1);

    macro_rules! on_input_stream {
        ($name:ident, $l:expr, $s:expr, $k:expr) => {
            /// A packet of k inputs starting at any frame s arrives at a receiver that already has
            /// everything up to frame L (window = prediction 1): exactly the frames L+1..s+k-1 are
            /// delivered, each once, in order, with the packet's values; older frames are skipped;
            /// an ack for the newest frame is queued; the remembered inputs stay within the pruning
            /// window. If the packet's base frame s-1 is newer than L nothing is delivered.
            #[kani::proof]
            #[kani::unwind(8)]
            #[kani::stub(crate::network::protocol::millis_since_epoch, stub_millis)]
            #[kani::stub(crate::network::compression::decode, stub_decode_tape)]
            #[kani::stub(alloc::fmt::format, stub_format)]
            #[kani::stub(crate::network::protocol::UdpProtocol::send_input_ack, stub_send_input_ack)]
            fn $name() {
                // frame numbers are concrete per instance (every start frame in [L-1, L+2] x k in 1..3 is
                // instantiated); the packet's values, ack and gossip are symbolic
                let l: Frame = $l;
                let mut ep = receiver_at(l, 1);
                let s: Frame = $s;
                let vals: [u8; 3] = kani::any();
                ACKS.store(0, Ordering::Relaxed);
                DEC_N.store($k, Ordering::Relaxed);
                DEC_V[0].store(vals[0], Ordering::Relaxed);
                DEC_V[1].store(vals[1], Ordering::Relaxed);
                DEC_V[2].store(vals[2], Ordering::Relaxed);
                let m = input_msg(s, NULL_FRAME);
                ep.handle_message(&m);
                let base_known = s - 1 <= l; // s-1 >= l-2 by the assumption on s
                let newest = s + $k as Frame - 1;
                if base_known && newest > l {
                    let n = (newest - l) as usize;
                    assert!(ep.event_queue.len() == n, "exactly the new frames are delivered");
                    let mut i = 0;
                    while i < n {
                        let f = l + 1 + i as Frame;
                        match ep.event_queue[i] {
                            Event::Input { input, player } => {
                                assert!(player == 1 && input.frame == f);
                                assert!(input.input == vals[(f - s) as usize]);
                            }
                            _ => assert!(false, "only input events"),
                        }
                        i += 1;
                    }
                    assert!(ep.last_recv_frame() == newest);

                } else {
                    assert!(ep.event_queue.is_empty());
                    assert!(ep.last_recv_frame() == l);
                }
                if base_known {
                    // acknowledged exactly once (the ack's content is decided by u_input_ack_content)
                    assert!(ACKS.load(Ordering::Relaxed) == 1);
                } else {
                    assert!(ACKS.load(Ordering::Relaxed) == 0);
                }
                // C18: remembered inputs stay within [newest - 2w, newest]
                let lr = ep.last_recv_frame();
                assert!(ep.recv_inputs.len() <= 3);
                assert!(ep.recv_inputs.contains_key(&lr));
                assert!(!ep.recv_inputs.contains_key(&(lr - 3)));
                kani::cover!(true, "verdict reached");
                core::mem::forget(m);
                core::mem::forget(ep);
            }
        };
    }
    on_input_stream!(u_on_input_stream_l5_s4_k1, 5, 4, 1);
    on_input_stream!(u_on_input_stream_l5_s4_k3, 5, 4, 3);
    on_input_stream!(u_on_input_stream_l5_s5_k1, 5, 5, 1);
    on_input_stream!(u_on_input_stream_l5_s5_k2, 5, 5, 2);
    on_input_stream!(u_on_input_stream_l5_s6_k1, 5, 6, 1);
    on_input_stream!(u_on_input_stream_l5_s6_k3, 5, 6, 3);
    on_input_stream!(u_on_input_stream_l5_s7_k2, 5, 7, 2);
    on_input_stream!(u_on_input_stream_l9_s8_k3, 9, 8, 3);

    /// First packet of a connection (nothing received yet): whatever its start frame (sender with an
    /// input delay), its inputs are delivered from that frame on, in order.
    macro_rules! first_packet {
        ($name:ident, $s:expr) => {
    #[kani::proof]
    #[kani::unwind(8)]
    #[kani::stub(crate::network::protocol::millis_since_epoch, stub_millis)]
    #[kani::stub(crate::network::compression::decode, stub_decode_tape)]
    #[kani::stub(alloc::fmt::format, stub_format)]
    fn $name() {
        let mut ep = mk_ep::<CfgRL>(vec![1], 2, 1, 1, true);
        let s: Frame = $s;
        let vals: [u8; 2] = kani::any();
        DEC_N.store(2, Ordering::Relaxed);
        DEC_V[0].store(vals[0], Ordering::Relaxed);
        DEC_V[1].store(vals[1], Ordering::Relaxed);
        let m = input_msg(s, NULL_FRAME);
        ep.handle_message(&m);
        assert!(ep.event_queue.len() == 2);
        let mut i = 0;
        while i < 2 {
            match ep.event_queue[i] {
                Event::Input { input, player } => {
                    assert!(player == 1 && input.frame == s + i as Frame && input.input == vals[i]);
                }
                _ => assert!(false),
            }
            i += 1;
        }
        assert!(ep.last_recv_frame() == s + 1);
        kani::cover!(true, "reached");
        core::mem::forget(m);
        core::mem::forget(ep);
    }
        };
    }
    first_packet!(u_on_input_first_packet_s0, 0);
    first_packet!(u_on_input_first_packet_s2, 2);

    macro_rules! lost_ack_reply {
        ($name:ident, $w:expr, $l:expr, $s:expr) => {
            /// C05 lost-ack lemma: acks were lost, so the sender retransmits from a base frame the
            /// receiver has already pruned (base < L - 2*window). The receiver cannot decode it,
            /// but must answer with an ack for its newest frame L so that the sender's base moves
            /// forward - otherwise the link is wedged for good.
            #[kani::proof]
            #[kani::unwind(8)]
            #[kani::stub(crate::network::protocol::millis_since_epoch, stub_millis)]
            #[kani::stub(crate::network::compression::decode, stub_decode_tape)]
            #[kani::stub(alloc::fmt::format, stub_format)]
            #[kani::stub(crate::network::protocol::InputBytes::to_player_inputs, stub_to_player_inputs_err)]
            fn $name() {
                let l: Frame = $l;
                let mut ep = receiver_at(l, $w);
                // base s-1 older than anything the receiver still remembers, but a frame the sender can hold
                let s: Frame = $s;
                assert!(s >= 1 && s - 1 < l - 2 * $w);
                DEC_N.store(1, Ordering::Relaxed);
                // our own unacknowledged outputs 3,4; the packet piggy-backs an ack for frame 3
                ep.last_acked_input = InputBytes { frame: 2, bytes: vec![0] };
                ep.pending_output.push_back(InputBytes { frame: 3, bytes: vec![1] });
                ep.pending_output.push_back(InputBytes { frame: 4, bytes: vec![2] });
                let m = input_msg(s, 3);
                ep.handle_message(&m);
                // the piggy-backed ack is honoured even though the payload cannot be decoded
                assert!(ep.pending_output.len() == 1 && ep.last_acked_input.frame == 3, "piggy-backed ack processed");
                assert!(ep.event_queue.is_empty(), "nothing can be delivered");
                assert!(ep.last_recv_frame() == l);
                assert!(ep.send_queue.len() == 1, "the retransmission must be answered");
                match ep.send_queue[0].body {
                    MessageBody::InputAck(a) => assert!(a.ack_frame == l),
                    _ => assert!(false, "expected an InputAck"),
                }
                kani::cover!(true, "reached");
                core::mem::forget(m);
                core::mem::forget(ep);
            }
        };
    }
    lost_ack_reply!(u_lost_ack_reply_w0_one_lost, 0, 8, 8); // window 0: a single lost ack (base 7, receiver at 8)
    lost_ack_reply!(u_lost_ack_reply_w0_old, 0, 8, 3);
    lost_ack_reply!(u_lost_ack_reply_w1_three_lost, 1, 8, 6); // window 1: three lost acks (base 5)
    lost_ack_reply!(u_lost_ack_reply_w2_five_lost, 2, 8, 4); // window 2: five lost acks (base 3)

    /// send_input_ack queues exactly one InputAck carrying the newest received frame.
    #[kani::proof]
    #[kani::unwind(8)]
    #[kani::stub(crate::network::protocol::millis_since_epoch, stub_millis)]
    fn u_input_ack_content() {
        let l: Frame = kani::any();
        kani::assume(l >= 2 && l < (1 << 20));
        let mut ep = receiver_at(l, 1);
        ep.send_input_ack();
        assert!(ep.send_queue.len() == 1);
        match ep.send_queue[0].body {
            MessageBody::InputAck(a) => assert!(a.ack_frame == l),
            _ => assert!(false, "expected an InputAck"),
        }
        assert!(ep.send_queue[0].header.magic == super::verif_u::MAGIC_LOCAL);
        kani::cover!(true, "reached");
        core::mem::forget(ep);
    }

    /// Acknowledgements (InputAck or piggy-backed): exactly the pending outputs with frame <= ack are
    /// released, the newest released one becomes the encoding base, and what stays pending starts
    /// right after the base (the precondition of the next retransmission).
    #[kani::proof]
    #[kani::unwind(8)]
    #[kani::stub(crate::network::protocol::millis_since_epoch, stub_millis)]
    fn u_ack_releases_prefix() {
        let mut ep = mk_ep::<CfgRL>(vec![1], 2, 1, 2, true);
        let a: Frame = kani::any();
        kani::assume(a >= NULL_FRAME && a < (1 << 20));
        ep.last_acked_input = InputBytes { frame: a, bytes: vec![0] };
        let vals: [u8; 3] = kani::any();
        let mut i = 0;
        while i < 3 {
            ep.pending_output.push_back(InputBytes { frame: a + 1 + i as Frame, bytes: vec![vals[i]] });
            i += 1;
        }
        let ack: Frame = kani::any();
        let m = Message {
            header: MessageHeader { magic: MAGIC_REMOTE },
            body: MessageBody::InputAck(InputAck { ack_frame: ack }),
        };
        ep.handle_message(&m);
        let released = if ack <= a { 0 } else if ack >= a + 3 { 3 } else { (ack - a) as usize };
        assert!(ep.pending_output.len() == 3 - released);
        assert!(ep.last_acked_input.frame == a + released as Frame);
        if released > 0 {
            assert!(ep.last_acked_input.bytes[0] == vals[released - 1]);
        }
        if released < 3 {
            assert!(ep.pending_output[0].frame == ep.last_acked_input.frame + 1);
        }
        kani::cover!(released == 2, "partial release");
        kani::cover!(ack > a + 3, "ack beyond what was sent");
        kani::cover!(ack < a, "stale ack");
        core::mem::forget(m);
        core::mem::forget(ep);
    }

    fn one_input(frame: Frame, v: u8) -> HashMap<PlayerHandle, PlayerInput<u8>> {
        let mut m = HashMap::new();
        m.insert(0usize, PlayerInput::new(frame, v));
        m
    }

    /// C18/C12: the unacknowledged-output buffer of an endpoint whose peer never acks (a silent
    /// spectator) exceeds its cap by at most the frames sent until the session reacts, and the
    /// endpoint asks for the disconnect exactly once however many more inputs are pushed meanwhile.
    /// (PENDING_OUTPUT_SIZE regenerated to 4 in this build.)
    #[kani::proof]
    #[kani::unwind(10)]
    #[kani::stub(crate::network::protocol::millis_since_epoch, stub_millis)]
    #[kani::stub(crate::network::compression::encode, stub_encode)]
    fn u_pending_output_cap_disconnect_once() {
        let mut ep = mk_ep::<CfgRL>(vec![2], 2, 1, 2, true);
        let cs = [ConnectionStatus::default(); 2];
        let base: Frame = kani::any();
        kani::assume(base >= 0 && base < (1 << 20));
        ep.last_acked_input = InputBytes { frame: base - 1, bytes: vec![0] };
        let mut i = 0;
        while i < PENDING_OUTPUT_SIZE {
            ep.pending_output.push_back(InputBytes { frame: base + i as Frame, bytes: vec![0] });
            i += 1;
        }
        // at the cap: two more confirmed frames are pushed in the same tick (a rollback burst)
        let n = PENDING_OUTPUT_SIZE as Frame;
        ep.send_input(&one_input(base + n, kani::any()), &cs);
        ep.send_input(&one_input(base + n + 1, kani::any()), &cs);
        let mut disconnects = 0;
        let mut j = 0;
        while j < ep.event_queue.len() {
            if matches!(ep.event_queue[j], Event::Disconnected) {
                disconnects += 1;
            }
            j += 1;
        }
        assert!(disconnects == 1, "exactly one Disconnected request for the silent peer");
        assert!(ep.pending_output.len() <= PENDING_OUTPUT_SIZE + 2);
        kani::cover!(true, "reached");
        core::mem::forget(ep);
    }

    /// send_input on a Running endpoint: the new frame is appended, the packet starts right after
    /// the acknowledged base and carries the receive-side ack and the caller's connection statuses.
    #[kani::proof]
    #[kani::unwind(10)]
    #[kani::stub(crate::network::protocol::millis_since_epoch, stub_millis)]
    #[kani::stub(crate::network::compression::encode, stub_encode)]
    fn u_send_input_packet_shape() {
        let mut ep = mk_ep::<CfgRL>(vec![1], 2, 1, 2, true);
        let a: Frame = kani::any();
        kani::assume(a >= NULL_FRAME && a < (1 << 20));
        ep.last_acked_input = InputBytes { frame: a, bytes: vec![0] };
        ep.pending_output.push_back(InputBytes { frame: a + 1, bytes: vec![0] });
        let cs = [
            ConnectionStatus { disconnected: kani::any(), last_frame: kani::any() },
            ConnectionStatus { disconnected: kani::any(), last_frame: kani::any() },
        ];
        let v: u8 = kani::any();
        ep.send_input(&one_input(a + 2, v), &cs);
        assert!(ep.pending_output.len() == 2);
        assert!(ep.pending_output[1].frame == a + 2 && ep.pending_output[1].bytes.len() == 1 && ep.pending_output[1].bytes[0] == v);
        assert!(ep.send_queue.len() == 1);
        match &ep.send_queue[0].body {
            MessageBody::Input(b) => {
                assert!(b.start_frame == a + 1);
                assert!(b.ack_frame == NULL_FRAME);
                assert!(!b.disconnect_requested);
                assert!(b.peer_connect_status.len() == 2);
                assert!(b.peer_connect_status[0] == cs[0] && b.peer_connect_status[1] == cs[1]);
            }
            _ => assert!(false, "expected an Input packet"),
        }
        kani::cover!(a == NULL_FRAME, "nothing acknowledged yet");
        core::mem::forget(ep);
    }
}
