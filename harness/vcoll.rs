#[cfg(kani)]
mod verif_vc {
    //! Self-check of the container model (trusted base of R1): finite-map laws of `vcoll::HashMap`
    //! and ascending iteration of `vcoll::BTreeMap`, keys and values symbolic.
    use super::*;

    /// get after insert; insert overwrites; remove removes exactly that key; retain keeps exactly the
    /// entries satisfying the predicate; len counts distinct keys; iteration yields every entry once.
    #[kani::proof]
    #[kani::unwind(10)]
    fn vc_map_laws() {
        let k1: i32 = kani::any();
        let k2: i32 = kani::any();
        let k3: i32 = kani::any();
        let v1: u8 = kani::any();
        let v2: u8 = kani::any();
        let v3: u8 = kani::any();
        let mut m: HashMap<i32, u8> = HashMap::new();
        assert!(m.insert(k1, v1).is_none());
        let r2 = m.insert(k2, v2);
        assert!(r2 == if k2 == k1 { Some(v1) } else { None });
        let r3 = m.insert(k3, v3);
        let distinct = 1 + (k2 != k1) as usize + (k3 != k1 && k3 != k2) as usize;
        assert!(m.len() == distinct);
        assert!(m.get(&k3) == Some(&v3));
        assert!(m.get(&k2) == Some(if k3 == k2 { &v3 } else { &v2 }));
        assert!(r3 == if k3 == k2 { Some(v2) } else if k3 == k1 { Some(v1) } else { None });
        let probe: i32 = kani::any();
        assert!(m.contains_key(&probe) == (probe == k1 || probe == k2 || probe == k3));
        let mut n = 0;
        let mut sum: u32 = 0;
        for (_, v) in m.iter() {
            n += 1;
            sum += *v as u32;
        }
        assert!(n == distinct);
        if distinct == 3 {
            assert!(sum == v1 as u32 + v2 as u32 + v3 as u32);
        }
        let thr: i32 = kani::any();
        m.retain(|&k, _| k >= thr);
        assert!(m.contains_key(&k1) == (k1 >= thr));
        assert!(m.contains_key(&k2) == (k2 >= thr));
        assert!(m.len() == (k1 >= thr) as usize + (k2 != k1 && k2 >= thr) as usize + (k3 != k1 && k3 != k2 && k3 >= thr) as usize);
        let had = m.contains_key(&k1);
        let rem = m.remove(&k1);
        assert!(rem.is_some() == had);
        assert!(!m.contains_key(&k1));
        kani::cover!(distinct == 3, "three distinct keys");
        kani::cover!(distinct == 1, "all keys equal");
    }

    /// BTreeMap model: iteration is in strictly ascending key order and complete.
    #[kani::proof]
    #[kani::unwind(10)]
    fn vc_btree_order() {
        let k1: i32 = kani::any();
        let k2: i32 = kani::any();
        let k3: i32 = kani::any();
        kani::assume(k1 != k2 && k2 != k3 && k1 != k3);
        let mut m: BTreeMap<i32, u8> = BTreeMap::new();
        m.insert(k1, 1);
        m.insert(k2, 2);
        m.insert(k3, 3);
        let mut it = m.iter();
        let a = *it.next().unwrap().0;
        let b = *it.next().unwrap().0;
        let c = *it.next().unwrap().0;
        assert!(it.next().is_none());
        assert!(a < b && b < c);
        let lo = if k1 < k2 { if k1 < k3 { k1 } else { k3 } } else if k2 < k3 { k2 } else { k3 };
        assert!(a == lo);
        assert!(m.remove(&b).is_some() && m.len() == 2);
        kani::cover!(k3 < k1, "inserted out of order");
    }
}
