//! Shared definitions for the injected Kani harnesses (scratch copy only; `cfg(kani)`).
#![allow(dead_code)]
use crate::{Config, Message, NonBlockingSocket, PredictDefault, PredictRepeatLast};

/// Instantiation 1: u8 inputs (bincode size 1), repeat-last predictor.
pub(crate) struct CfgRL;
impl Config for CfgRL {
    type Input = u8;
    type InputPredictor = PredictRepeatLast;
    type State = u32;
    type Address = u8;
}

/// Instantiation 2: u8 inputs, default predictor.
pub(crate) struct CfgDef;
impl Config for CfgDef {
    type Input = u8;
    type InputPredictor = PredictDefault;
    type State = u32;
    type Address = u8;
}

/// A socket that never receives and discards what is sent.
pub(crate) struct NullSocket;
impl NonBlockingSocket<u8> for NullSocket {
    fn send_to(&mut self, _msg: &Message, _addr: &u8) {}
    fn receive_all_messages(&mut self) -> Vec<(u8, Message)> {
        Vec::new()
    }
}

/// Stub for `alloc::fmt::format`: error strings are not the subject.
pub(crate) fn stub_format(_args: core::fmt::Arguments<'_>) -> String {
    String::new()
}

/// Stub for `compression::encode` in session-level harnesses (codec verified separately, C14).
pub(crate) fn stub_encode<'a>(_reference: &[u8], _pending: impl Iterator<Item = &'a Vec<u8>>) -> Vec<u8> {
    Vec::new()
}

/// Wall-clock stand-in for `protocol::millis_since_epoch` (private fn calling `SystemTime::now`).
pub(crate) fn stub_millis() -> u128 {
    instant::now_ms() as u128
}

/// The frame-tagged rolling hash used as the harness game's state and checksum.
pub(crate) fn step(state: u32, inputs: &[u8]) -> u32 {
    let mut s = state.wrapping_mul(31).wrapping_add(7);
    let mut i = 0;
    while i < inputs.len() {
        s = s.wrapping_mul(33) ^ (inputs[i] as u32);
        i += 1;
    }
    s
}

/// Zero-sized error for stubs.
#[derive(Debug)]
pub(crate) struct VErr;
impl core::fmt::Display for VErr {
    fn fmt(&self, _f: &mut core::fmt::Formatter<'_>) -> core::fmt::Result {
        Ok(())
    }
}
impl std::error::Error for VErr {}

/// Stub for `compression::decode` where the payload is not the subject: always "undecodable".
pub(crate) fn stub_decode_err(
    _reference: &[u8],
    _data: &[u8],
) -> Result<Vec<Vec<u8>>, Box<dyn std::error::Error + Send + Sync>> {
    Err(Box::new(VErr))
}
