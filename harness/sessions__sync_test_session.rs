#[cfg(kani)]
mod verif_t {
    //! T — `SyncTestSession` checksum comparison kernel (C13). (Whole sync-test runs over several
    //! ticks are out of reach for the symbolic executor, see probes/attempted.)
    use super::*;
    use crate::sync_layer::verif_s as vs;
    use crate::{InputStatus, NULL_FRAME};
    use crate::verif_common::{stub_format, CfgRL};

    /// checksums_consistent(f) for every frame f of the check window: the first checksum seen for a
    /// frame is remembered; any later re-simulation of that frame whose saved checksum differs makes
    /// the frame inconsistent (=> MismatchedChecksum names it), an equal one does not; frames whose
    /// cell holds another frame are skipped; history older than the window is forgotten.
    fn checksum_comparison(cd: usize, w: usize, c: Frame) {
        let mut s = SyncTestSession::<CfgRL>::new(1, w, cd, 0);
        vs::set_current_frame(&mut s.sync_layer, c);
        let f: Frame = kani::any();
        kani::assume(f >= c - cd as Frame && f <= c);
        let cell_cs: u32 = kani::any();
        let hist_cs: u32 = kani::any();
        let cell_holds_f: bool = kani::any();
        let recorded: bool = kani::any();
        let ncell = vs::num_cells(&s.sync_layer);
        if cell_holds_f {
            vs::cell_save(&s.sync_layer, f as usize % ncell, f, cell_cs);
        }
        if recorded {
            s.checksum_history.insert(f, Some(hist_cs as u128));
        }
        // an entry that has left the window
        s.checksum_history.insert(c - cd as Frame - 1, Some(1));
        let ok = s.checksums_consistent(f);
        if !cell_holds_f {
            assert!(ok, "no saved state for the frame: nothing to compare");
        } else if recorded {
            assert!(ok == (hist_cs == cell_cs), "C13: a differing re-simulation is flagged, an equal one is not");
        } else {
            assert!(ok);
            assert!(s.checksum_history.get(&f) == Some(&Some(cell_cs as u128)), "first checksum remembered");
        }
        assert!(!s.checksum_history.contains_key(&(c - cd as Frame - 1)), "history outside the window dropped");
        kani::cover!(cell_holds_f && recorded && hist_cs != cell_cs && f == c - 1, "mismatch strictly inside the window");
        kani::cover!(cell_holds_f && recorded && hist_cs != cell_cs && f == c - cd as Frame, "mismatch at the window's oldest frame");
        core::mem::forget(s);
    }

    /// (instance: check distance 3, window 4, current frame 9)
    #[kani::proof]
    #[kani::unwind(8)]
    #[kani::stub(alloc::fmt::format, stub_format)]
    fn t_checksum_comparison() {
        checksum_comparison(3, 4, 9);
    }

    /// (instance: check distance 2 - the default -, window 3, current frame 6, two players' worth of cells)
    #[kani::proof]
    #[kani::unwind(8)]
    #[kani::stub(alloc::fmt::format, stub_format)]
    fn t_checksum_comparison_cd2() {
        checksum_comparison(2, 3, 6);
    }

    // ------------------------------------------------------------------ one whole advance_frame call (C13, C02)

    /// One whole `advance_frame` call of a one-player session from the state a run of a deterministic OR glitching game
    /// has reached at frame c (queue holds the inputs of frames < c, the ring holds the saves of the last w+1 frames
    /// with symbolic checksums, the history holds the first checksum of the frames c-1-cd..=c-2; at most one frame
    /// `bad` of the check window was re-simulated to a different checksum). Decides: a mismatch is reported iff there
    /// is one, as MismatchedChecksum naming current frame and exactly the bad frame, with no request; otherwise the
    /// request list is Load(c-cd) [cell holds c-cd], then for each frame c-cd..c-1 (Save unless just loaded,
    /// Advance with that frame's stored input as Confirmed), then Save(c), Advance(new input, Confirmed); the frame
    /// counter ends at c+1; the first checksum of every saved frame of the window - also on the very first rollback -
    /// is now in the history and older entries are gone. Without rollback (c <= cd): [Save(c), Advance]; cd = 0: [Advance].
    fn tick(cd: usize, w: usize, c: Frame, bad: Frame, concrete_cs: bool) {
        const R: usize = crate::input_queue::verif_q::RING;
        let mut s = SyncTestSession::<CfgRL>::new(1, w, cd, 0);
        let v: [u8; R] = kani::any();
        let cdf = cd as Frame;
        let keep = if c - cdf - 1 > 0 { c - cdf - 1 } else { 0 };
        if c > 0 {
            let q = crate::input_queue::verif_q::build::<CfgRL>(c - 1, keep, c - 1, &v, None, NULL_FRAME);
            core::mem::forget(core::mem::replace(vs::queue_mut(&mut s.sync_layer, 0), q));
        }
        vs::set_current_frame(&mut s.sync_layer, c);
        vs::set_last_confirmed(&mut s.sync_layer, if c > cdf { c - cdf } else { NULL_FRAME });
        vs::set_last_saved(&mut s.sync_layer, c - 1);
        s.dummy_connect_status[0].last_frame = c;
        let ncell = vs::num_cells(&s.sync_layer);
        // (steady-state instances use concrete checksum VALUES: a symbolic comparison makes the number of collected
        //  mismatches symbolic, which the symbolic executor does not get through; the comparison on symbolic checksums
        //  is decided by t_checksum_comparison*)
        let cs: [u32; 8] = if concrete_cs { [1000, 1001, 1002, 1003, 1004, 1005, 1006, 1007] } else { kani::any() };
        // saves of the last w+1 frames (frame f in slot f % (w+1)), newest last
        let mut f = if c - (ncell as Frame) > 0 { c - ncell as Frame } else { 0 };
        if cd > 0 {
            while f < c {
                vs::cell_save(&s.sync_layer, f as usize % ncell, f, cs[f as usize % 8]);
                f += 1;
            }
        }
        // history left by the previous call (made at frame c-1, if that call compared at all): frames c-1-cd..=c-2
        let rollback = cd > 0 && c > cdf;
        let prev_compared = cd > 0 && c - 1 > cdf;
        assert!(bad == NULL_FRAME || (prev_compared && bad >= c - cdf && bad <= c - 2)); // instance sanity
        let wrong: u32 = if concrete_cs { 7 } else { kani::any() };
        if prev_compared {
            let mut h = c - 1 - cdf;
            while h <= c - 2 {
                let first = if h == bad { wrong } else { cs[h as usize % 8] };
                s.checksum_history.insert(h, Some(first as u128));
                h += 1;
            }
        }
        kani::assume(bad == NULL_FRAME || wrong != cs[bad as usize % 8]);
        let x: u8 = kani::any();
        assert!(s.add_local_input(0, x).is_ok());
        let r = s.advance_frame();
        match &r {
            Err(GgrsError::MismatchedChecksum { current_frame, mismatched_frames }) => {
                assert!(bad != NULL_FRAME, "C13: a deterministic game is never flagged");
                assert!(*current_frame == c && mismatched_frames.len() == 1 && mismatched_frames[0] == bad, "C13: names exactly the affected frame");
                assert!(s.sync_layer.current_frame() == c);
            }
            Err(_) => assert!(false, "documented error kind"),
            Ok(reqs) => {
                assert!(bad == NULL_FRAME, "C13: a frame re-simulated to a different checksum inside the window is reported");
                assert!(s.sync_layer.current_frame() == c + 1, "C02: exactly one frame further");
                let mut k = 0;
                if rollback {
                    let from = c - cdf;
                    match &reqs[0] {
                        GgrsRequest::LoadGameState { cell, frame } => assert!(*frame == from && cell.frame() == from, "C02: load names a frame whose cell holds it"),
                        _ => assert!(false, "rollback starts with the load"),
                    }
                    k = 1;
                    let mut fr = from;
                    while fr < c {
                        if fr > from {
                            match &reqs[k] {
                                GgrsRequest::SaveGameState { frame, .. } => assert!(*frame == fr, "C02: save names the frame the game is at"),
                                _ => assert!(false, "expected SaveGameState"),
                            }
                            k += 1;
                        }
                        match &reqs[k] {
                            GgrsRequest::AdvanceFrame { inputs } => {
                                assert!(inputs.len() == 1 && inputs[0] == (v[fr as usize % R], InputStatus::Confirmed), "C13: re-simulation with the stored inputs, all Confirmed");
                            }
                            _ => assert!(false, "expected AdvanceFrame"),
                        }
                        k += 1;
                        fr += 1;
                    }
                }
                if cd > 0 {
                    match &reqs[k] {
                        GgrsRequest::SaveGameState { frame, .. } => assert!(*frame == c, "C02: the current frame is saved before it is simulated"),
                        _ => assert!(false, "expected SaveGameState for the current frame"),
                    }
                    k += 1;
                }
                match &reqs[k] {
                    GgrsRequest::AdvanceFrame { inputs } => assert!(inputs.len() == 1 && inputs[0] == (x, InputStatus::Confirmed)),
                    _ => assert!(false, "expected AdvanceFrame"),
                }
                assert!(reqs.len() == k + 1, "no further request");
                if rollback {
                    // first checksums of the window's saved frames are remembered (also on the very first rollback)
                    let mut h = c - cdf;
                    while h <= c - 1 {
                        assert!(s.checksum_history.get(&h) == Some(&Some(cs[h as usize % 8] as u128)), "C13: first checksum of every frame of the window recorded");
                        h += 1;
                    }
                    assert!(!s.checksum_history.contains_key(&(c - cdf - 1)), "history outside the window dropped");
                }
            }
        }
        kani::cover!(bad != NULL_FRAME || r.is_ok(), "deterministic run: requests returned");
        kani::cover!(bad == NULL_FRAME || r.is_err(), "glitch reported");
        core::mem::forget(r);
        core::mem::forget(s);
    }

    macro_rules! tick_case {
        ($name:ident, $cd:expr, $w:expr, $c:expr, $bad:expr, $ccs:expr) => {
            /// One whole SyncTestSession::advance_frame call (see `tick`): mismatch reported iff a frame of the window was
            /// re-simulated differently, naming it; else Load/Save/Advance list with stored inputs, first checksums recorded.
            /// (instance: check distance, window, current frame, glitching frame or -1 for a deterministic game, concrete
            /// checksum values?; inputs symbolic)
            #[kani::proof]
            #[kani::unwind(10)]
            #[kani::stub(alloc::fmt::format, stub_format)]
            fn $name() {
                tick($cd, $w, $c, $bad, $ccs);
            }
        };
    }
    // (steady-state instances at check distance >= 2 - cd2/cd3 at frame 9, with and without a glitching frame - do not get
    //  through symbolic execution within 20 min even with concrete checksum values: probes/attempted/README.md)
    tick_case!(t_tick_cd2_first_rollback, 2, 3, 3, -1, false);
    tick_case!(t_tick_cd1_steady, 1, 2, 5, -1, false);
    tick_case!(t_tick_cd2_before_rollbacks, 2, 3, 2, -1, false);
    tick_case!(t_tick_cd0, 0, 2, 4, -1, false);
}
