#[cfg(kani)]
mod verif_t {
    //! T — `SyncTestSession` checksum comparison kernel (C13). (Whole sync-test runs over several
    //! ticks are out of reach for the symbolic executor, see probes/attempted.)
    use super::*;
    use crate::sync_layer::verif_s as vs;
    use crate::verif_common::{stub_format, CfgRL};

    /// checksums_consistent(f) for every frame f of the check window: the first checksum seen for a
    /// frame is remembered; any later re-simulation of that frame whose saved checksum differs makes
    /// the frame inconsistent (=> MismatchedChecksum names it), an equal one does not; frames whose
    /// cell holds another frame are skipped; history older than the window is forgotten.
    fn checksum_comparison(cd: usize, w: usize, c: Frame) {
        let mut s = SyncTestSession::<CfgRL>::new(1, w, cd, 0);
        vs::set_current_frame(&mut s.sync_layer, c);
        let f: Frame = kani::any();
        kani::assume(f >= c - cd as Frame && f <= c);
        let cell_cs: u32 = kani::any();
        let hist_cs: u32 = kani::any();
        let cell_holds_f: bool = kani::any();
        let recorded: bool = kani::any();
        let ncell = vs::num_cells(&s.sync_layer);
        if cell_holds_f {
            vs::cell_save(&s.sync_layer, f as usize % ncell, f, cell_cs);
        }
        if recorded {
            s.checksum_history.insert(f, Some(hist_cs as u128));
        }
        // an entry that has left the window
        s.checksum_history.insert(c - cd as Frame - 1, Some(1));
        let ok = s.checksums_consistent(f);
        if !cell_holds_f {
            assert!(ok, "no saved state for the frame: nothing to compare");
        } else if recorded {
            assert!(ok == (hist_cs == cell_cs), "C13: a differing re-simulation is flagged, an equal one is not");
        } else {
            assert!(ok);
            assert!(s.checksum_history.get(&f) == Some(&Some(cell_cs as u128)), "first checksum remembered");
        }
        assert!(!s.checksum_history.contains_key(&(c - cd as Frame - 1)), "history outside the window dropped");
        kani::cover!(cell_holds_f && recorded && hist_cs != cell_cs && f == c - 1, "mismatch strictly inside the window");
        kani::cover!(cell_holds_f && recorded && hist_cs != cell_cs && f == c - cd as Frame, "mismatch at the window's oldest frame");
        core::mem::forget(s);
    }

    /// (instance: check distance 3, window 4, current frame 9)
    #[kani::proof]
    #[kani::unwind(8)]
    #[kani::stub(alloc::fmt::format, stub_format)]
    fn t_checksum_comparison() {
        checksum_comparison(3, 4, 9);
    }

    /// (instance: check distance 2 - the default -, window 3, current frame 6, two players' worth of cells)
    #[kani::proof]
    #[kani::unwind(8)]
    #[kani::stub(alloc::fmt::format, stub_format)]
    fn t_checksum_comparison_cd2() {
        checksum_comparison(2, 3, 6);
    }
}
