#[cfg(kani)]
pub(crate) mod verif_pe {
    //! P/ep — `P2PSession` glue functions on a session whose endpoints are real `UdpProtocol`
    //! objects built by struct literal (Running): disconnect propagation and cut-off agreement
    //! (C07, C10), lifecycle/event forwarding (C12), event-queue bound (C18).
    use super::*;
    use crate::network::protocol::verif_u::{mk_ep, set_peer_addr, set_peer_status};
    use crate::verif_common::{stub_format, stub_millis, CfgRL, NullSocket};

    /// three peers: local player 0, remote player 1 at address 8, remote player 2 at address 9
    pub(crate) fn mk_session_3peers(w: usize, sparse: bool) -> P2PSession<CfgRL> {
        let mut reg = PlayerRegistry::<CfgRL> {
            handles: HashMap::new(),
            remotes: HashMap::new(),
            spectators: HashMap::new(),
        };
        reg.handles.insert(0, PlayerType::Local);
        reg.handles.insert(1, PlayerType::Remote(8));
        reg.handles.insert(2, PlayerType::Remote(9));
        let mut e8 = mk_ep::<CfgRL>(vec![1], 3, 1, w, true);
        set_peer_addr(&mut e8, 8);
        let e9 = mk_ep::<CfgRL>(vec![2], 3, 1, w, true);
        reg.remotes.insert(8, e8);
        reg.remotes.insert(9, e9);
        let mut s = P2PSession::<CfgRL>::new(3, w, Box::new(NullSocket), reg, sparse, DesyncDetection::Off, 0, 60);
        s.state = SessionState::Running;
        s
    }

    /// C10 cut-off agreement kernel: a surviving peer (address 8) gossips that player 2 is
    /// disconnected as of frame m, while this peer holds player 2's inputs up to frame L (any L, m,
    /// either order, locally still connected or already dropped). After update_player_disconnects
    /// this peer treats player 2 as disconnected as of min(L, m) - the same function of {L, m} on
    /// every survivor -, schedules the resimulation from the frame after the cut-off when that frame
    /// was already simulated, and a second call changes nothing (no rollback re-armed every tick).
    fn cutoff_agreement(gossip_earlier: bool) {
        let mut s = mk_session_3peers(2, false);
        let cur: Frame = kani::any();
        kani::assume(cur >= 0 && cur < (1 << 20));
        let l: Frame = kani::any();
        let m: Frame = kani::any();
        kani::assume(l >= NULL_FRAME && l <= cur + 2 && m >= NULL_FRAME && m <= cur + 2);
        kani::assume((m < l) == gossip_earlier);
        let locally_dropped: bool = kani::any();
        s.local_connect_status[0].last_frame = cur;
        s.local_connect_status[1].last_frame = cur;
        s.local_connect_status[2] = ConnectionStatus { disconnected: locally_dropped, last_frame: l };
        // what the surviving peer at address 8 told us in its last input packet
        {
            let e8 = s.player_reg.remotes.get_mut(&8).unwrap();
            set_peer_status(e8, 2, ConnectionStatus { disconnected: true, last_frame: m });
            set_peer_status(e8, 0, ConnectionStatus { disconnected: false, last_frame: cur + 5 });
            set_peer_status(e8, 1, ConnectionStatus { disconnected: false, last_frame: cur + 5 });
            let e9 = s.player_reg.remotes.get_mut(&9).unwrap();
            set_peer_status(e9, 0, ConnectionStatus { disconnected: false, last_frame: cur + 5 });
            set_peer_status(e9, 1, ConnectionStatus { disconnected: false, last_frame: cur + 5 });
            set_peer_status(e9, 2, ConnectionStatus { disconnected: false, last_frame: cur + 5 });
        }
        // bring the sync layer to frame cur
        crate::sync_layer::verif_s::set_current_frame(&mut s.sync_layer, cur);
        s.update_player_disconnects();
        let cut = if l < m { l } else { m };
        assert!(s.local_connect_status[2].disconnected, "player 2 is dropped here too");
        assert!(s.local_connect_status[2].last_frame == cut, "common cut-off = min(own, gossiped)");
        assert!(!s.local_connect_status[0].disconnected && !s.local_connect_status[1].disconnected);
        let df = s.disconnect_frame;
        if (!locally_dropped || l > m) && cur > cut + 1 {
            assert!(df == cut + 1, "resimulate from the first frame without the dropped player");
        }
        s.update_player_disconnects();
        assert!(s.disconnect_frame == df && s.local_connect_status[2].last_frame == cut, "idempotent");
        kani::cover!(!locally_dropped, "player still connected here when the gossip arrives");
        kani::cover!(locally_dropped, "player already dropped here");
        core::mem::forget(s);
    }

    /// (the gossiped frame is not earlier than what this peer holds: cut-off = own last frame)
    #[kani::proof]
    #[kani::unwind(6)]
    #[kani::stub(crate::network::protocol::millis_since_epoch, stub_millis)]
    #[kani::stub(alloc::fmt::format, stub_format)]
    fn pe_cutoff_agreement_gossip_not_earlier() {
        cutoff_agreement(false);
    }

    /// (the gossiped frame is EARLIER than what this peer holds - the survivors received different
    /// amounts of the dead peer's input: known finding F3 on the unchanged tree)
    #[kani::proof]
    #[kani::unwind(6)]
    #[kani::stub(crate::network::protocol::millis_since_epoch, stub_millis)]
    #[kani::stub(alloc::fmt::format, stub_format)]
    fn pe_cutoff_agreement_gossip_earlier() {
        cutoff_agreement(true);
    }

    /// C17/C07: two endpoints are found dead in the same poll (their Disconnected events are handled one
    /// after the other, in either order - the order is the hash order of the endpoint map). The rollback
    /// must start from the EARLIER of the two cut-offs whatever the order.
    #[kani::proof]
    #[kani::unwind(6)]
    #[kani::stub(crate::network::protocol::millis_since_epoch, stub_millis)]
    #[kani::stub(alloc::fmt::format, stub_format)]
    fn pe_two_disconnects_one_poll() {
        let mut s = mk_session_3peers(3, false);
        let cur: Frame = kani::any();
        kani::assume(cur >= 4 && cur < (1 << 20));
        let l1: Frame = kani::any();
        let l2: Frame = kani::any();
        kani::assume(l1 >= cur - 4 && l1 < cur - 1 && l2 >= cur - 4 && l2 < cur - 1);
        crate::sync_layer::verif_s::set_current_frame(&mut s.sync_layer, cur);
        s.local_connect_status[0].last_frame = cur;
        s.local_connect_status[1].last_frame = l1;
        s.local_connect_status[2].last_frame = l2;
        let first_is_8: bool = kani::any(); // iteration order of the endpoint map
        if first_is_8 {
            s.handle_event(Event::Disconnected, vec![1], 8);
            s.handle_event(Event::Disconnected, vec![2], 9);
        } else {
            s.handle_event(Event::Disconnected, vec![2], 9);
            s.handle_event(Event::Disconnected, vec![1], 8);
        }
        let earliest = if l1 < l2 { l1 } else { l2 };
        assert!(s.local_connect_status[1].disconnected && s.local_connect_status[2].disconnected);
        assert!(s.disconnect_frame == earliest + 1, "C17: resimulation starts at the earlier cut-off in either order");
        kani::cover!(first_is_8 && l1 < l2, "the earlier cut-off is handled first");
        kani::cover!(first_is_8 && l2 < l1, "the earlier cut-off is handled second");
        core::mem::forget(s);
    }

    /// C17 (build with the container model's iteration order chosen by the solver,
    /// `CFG_ggrs_verif_permute`): four peers; the two surviving remote peers (addresses 8 and 9) both
    /// gossip that player 3 is disconnected, as of different frames m8 and m9, while this peer holds
    /// its inputs up to L. Whatever order the endpoint map is iterated in, the adopted cut-off is the
    /// minimum of the three and the resimulation starts right after it.
    #[kani::proof]
    #[kani::unwind(6)]
    #[kani::stub(crate::network::protocol::millis_since_epoch, stub_millis)]
    #[kani::stub(alloc::fmt::format, stub_format)]
    fn pe_gossip_order_independent() {
        let mut reg = PlayerRegistry::<CfgRL> { handles: HashMap::new(), remotes: HashMap::new(), spectators: HashMap::new() };
        reg.handles.insert(0, PlayerType::Local);
        reg.handles.insert(1, PlayerType::Remote(8));
        reg.handles.insert(2, PlayerType::Remote(9));
        reg.handles.insert(3, PlayerType::Remote(7));
        let cur: Frame = 20;
        let m8: Frame = kani::any();
        let m9: Frame = kani::any();
        let l: Frame = kani::any();
        kani::assume(m8 >= 10 && m8 <= 22 && m9 >= 10 && m9 <= 22 && l >= 10 && l <= 22);
        let ok = ConnectionStatus { disconnected: false, last_frame: cur + 5 };
        let mut e8 = mk_ep::<CfgRL>(vec![1], 4, 1, 3, true);
        set_peer_addr(&mut e8, 8);
        let mut e9 = mk_ep::<CfgRL>(vec![2], 4, 1, 3, true);
        let mut e7 = mk_ep::<CfgRL>(vec![3], 4, 1, 3, true);
        set_peer_addr(&mut e7, 7);
        let mut h = 0;
        while h < 3 {
            set_peer_status(&mut e8, h, ok);
            set_peer_status(&mut e9, h, ok);
            set_peer_status(&mut e7, h, ok);
            h += 1;
        }
        set_peer_status(&mut e7, 3, ok);
        set_peer_status(&mut e8, 3, ConnectionStatus { disconnected: true, last_frame: m8 });
        set_peer_status(&mut e9, 3, ConnectionStatus { disconnected: true, last_frame: m9 });
        reg.remotes.insert(8, e8);
        reg.remotes.insert(9, e9);
        reg.remotes.insert(7, e7);
        let mut s = P2PSession::<CfgRL>::new(4, 3, Box::new(NullSocket), reg, false, DesyncDetection::Off, 0, 60);
        s.state = SessionState::Running;
        crate::sync_layer::verif_s::set_current_frame(&mut s.sync_layer, cur);
        s.local_connect_status[0].last_frame = cur;
        s.local_connect_status[1].last_frame = cur;
        s.local_connect_status[2].last_frame = cur;
        s.local_connect_status[3].last_frame = l;
        s.update_player_disconnects();
        let mut cut = l;
        if m8 < cut {
            cut = m8;
        }
        if m9 < cut {
            cut = m9;
        }
        assert!(s.local_connect_status[3].disconnected);
        if cur > cut + 1 {
            assert!(s.disconnect_frame == cut + 1, "C17: the rollback target does not depend on the map's iteration order");
        }
        kani::cover!(m9 < m8 && m9 < l, "the second reporter names the earliest frame");
        kani::cover!(m8 < m9 && m8 < l, "the first reporter names the earliest frame");
        core::mem::forget(s);
    }
}
