#[cfg(kani)]
mod verif_codec_more {
    //! K (thorough tier) - further delta-stage totality shapes (total size 6..7 bytes); same macro as
    //! in network__compression.rs.
    use super::*;

    fn slice_eq(a: &[u8], b: &[u8]) -> bool {
        if a.len() != b.len() {
            return false;
        }
        let mut i = 0;
        while i < a.len() {
            if a[i] != b[i] {
                return false;
            }
            i += 1;
        }
        true
    }

    macro_rules! delta_total {
        ($name:ident, $n:expr, $mask:expr, $ok:expr, $unw:expr) => {
            /// Delta stage totality on one length shape: the 2-byte length prefixes are the concrete
            /// values of the shape (fitting lengths, a truncated prefix, or an over-long claim of
            /// remaining+1/+2/+3/0xFFFF bytes), every payload byte and the reference are symbolic.
            /// `delta_decode` must not panic, must accept exactly the well-formed shapes, and an
            /// accepted buffer must re-encode to the same bytes (no byte dropped or invented).
            #[kani::proof]
            #[kani::unwind($unw)]
            fn $name() {
                const M: [Option<u8>; $n] = $mask;
                let mut data = [0u8; $n];
                let mut i = 0;
                while i < $n {
                    data[i] = match M[i] {
                        Some(b) => b,
                        None => kani::any(),
                    };
                    i += 1;
                }
                let reference: [u8; 2] = kani::any();
                match delta_decode(&reference, &data[..]) {
                    Ok(out) => {
                        assert!($ok, "malformed buffer accepted");
                        let enc = delta_encode(&reference, out.iter());
                        assert!(slice_eq(&enc, &data));
                        core::mem::forget(enc);
                        core::mem::forget(out);
                    }
                    Err(_) => {
                        assert!(!$ok, "well-formed buffer rejected");
                    }
                }
                kani::cover!(true, "verdict reached");
            }
        };
    }
    // thorough tier: every further shape of total size <= 7 bytes
    delta_total!(k_delta_total_l_over_r4_k1, 6, [Some(5), Some(0), None, None, None, None], false, 10);
    delta_total!(k_delta_total_l_over_r4_k2, 6, [Some(6), Some(0), None, None, None, None], false, 10);
    delta_total!(k_delta_total_l_over_r4_k3, 6, [Some(7), Some(0), None, None, None, None], false, 10);
    delta_total!(k_delta_total_l_over_r4_kbig, 6, [Some(255), Some(255), None, None, None, None], false, 10);
    delta_total!(k_delta_total_l_over_r5_k1, 7, [Some(6), Some(0), None, None, None, None, None], false, 11);
    delta_total!(k_delta_total_l_over_r5_k2, 7, [Some(7), Some(0), None, None, None, None, None], false, 11);
    delta_total!(k_delta_total_l_over_r5_k3, 7, [Some(8), Some(0), None, None, None, None, None], false, 11);
    delta_total!(k_delta_total_l_over_r5_kbig, 7, [Some(255), Some(255), None, None, None, None, None], false, 11);
    delta_total!(k_delta_total_l0_over_r2_k1, 6, [Some(0), Some(0), Some(3), Some(0), None, None], false, 10);
    delta_total!(k_delta_total_l0_over_r2_k2, 6, [Some(0), Some(0), Some(4), Some(0), None, None], false, 10);
    delta_total!(k_delta_total_l0_over_r2_k3, 6, [Some(0), Some(0), Some(5), Some(0), None, None], false, 10);
    delta_total!(k_delta_total_l0_over_r2_kbig, 6, [Some(0), Some(0), Some(255), Some(255), None, None], false, 10);
    delta_total!(k_delta_total_l0_over_r3_k1, 7, [Some(0), Some(0), Some(4), Some(0), None, None, None], false, 11);
    delta_total!(k_delta_total_l0_over_r3_k2, 7, [Some(0), Some(0), Some(5), Some(0), None, None, None], false, 11);
    delta_total!(k_delta_total_l0_over_r3_k3, 7, [Some(0), Some(0), Some(6), Some(0), None, None, None], false, 11);
    delta_total!(k_delta_total_l0_over_r3_kbig, 7, [Some(0), Some(0), Some(255), Some(255), None, None, None], false, 11);
    delta_total!(k_delta_total_l0_0_over_r0_k1, 6, [Some(0), Some(0), Some(0), Some(0), Some(1), Some(0)], false, 10);
    delta_total!(k_delta_total_l0_0_over_r0_k2, 6, [Some(0), Some(0), Some(0), Some(0), Some(2), Some(0)], false, 10);
    delta_total!(k_delta_total_l0_0_over_r0_k3, 6, [Some(0), Some(0), Some(0), Some(0), Some(3), Some(0)], false, 10);
    delta_total!(k_delta_total_l0_0_over_r0_kbig, 6, [Some(0), Some(0), Some(0), Some(0), Some(255), Some(255)], false, 10);
    delta_total!(k_delta_total_l0_0_over_r1_k1, 7, [Some(0), Some(0), Some(0), Some(0), Some(2), Some(0), None], false, 11);
    delta_total!(k_delta_total_l0_0_over_r1_k2, 7, [Some(0), Some(0), Some(0), Some(0), Some(3), Some(0), None], false, 11);
    delta_total!(k_delta_total_l0_0_over_r1_k3, 7, [Some(0), Some(0), Some(0), Some(0), Some(4), Some(0), None], false, 11);
    delta_total!(k_delta_total_l0_0_over_r1_kbig, 7, [Some(0), Some(0), Some(0), Some(0), Some(255), Some(255), None], false, 11);
    delta_total!(k_delta_total_l0_0_0_end, 6, [Some(0), Some(0), Some(0), Some(0), Some(0), Some(0)], true, 10);
    delta_total!(k_delta_total_l0_0_0_trunc, 7, [Some(0), Some(0), Some(0), Some(0), Some(0), Some(0), None], false, 11);
    delta_total!(k_delta_total_l0_0_1_end, 7, [Some(0), Some(0), Some(0), Some(0), Some(1), Some(0), None], true, 11);
    delta_total!(k_delta_total_l0_1_trunc, 6, [Some(0), Some(0), Some(1), Some(0), None, None], false, 10);
    delta_total!(k_delta_total_l0_1_over_r0_k1, 7, [Some(0), Some(0), Some(1), Some(0), None, Some(1), Some(0)], false, 11);
    delta_total!(k_delta_total_l0_1_over_r0_k2, 7, [Some(0), Some(0), Some(1), Some(0), None, Some(2), Some(0)], false, 11);
    delta_total!(k_delta_total_l0_1_over_r0_k3, 7, [Some(0), Some(0), Some(1), Some(0), None, Some(3), Some(0)], false, 11);
    delta_total!(k_delta_total_l0_1_over_r0_kbig, 7, [Some(0), Some(0), Some(1), Some(0), None, Some(255), Some(255)], false, 11);
    delta_total!(k_delta_total_l0_1_0_end, 7, [Some(0), Some(0), Some(1), Some(0), None, Some(0), Some(0)], true, 11);
    delta_total!(k_delta_total_l0_2_end, 6, [Some(0), Some(0), Some(2), Some(0), None, None], true, 10);
    delta_total!(k_delta_total_l0_2_trunc, 7, [Some(0), Some(0), Some(2), Some(0), None, None, None], false, 11);
    delta_total!(k_delta_total_l0_3_end, 7, [Some(0), Some(0), Some(3), Some(0), None, None, None], true, 11);
    delta_total!(k_delta_total_l1_over_r1_k1, 6, [Some(1), Some(0), None, Some(2), Some(0), None], false, 10);
    delta_total!(k_delta_total_l1_over_r1_k2, 6, [Some(1), Some(0), None, Some(3), Some(0), None], false, 10);
    delta_total!(k_delta_total_l1_over_r1_k3, 6, [Some(1), Some(0), None, Some(4), Some(0), None], false, 10);
    delta_total!(k_delta_total_l1_over_r1_kbig, 6, [Some(1), Some(0), None, Some(255), Some(255), None], false, 10);
    delta_total!(k_delta_total_l1_over_r2_k1, 7, [Some(1), Some(0), None, Some(3), Some(0), None, None], false, 11);
    delta_total!(k_delta_total_l1_over_r2_k2, 7, [Some(1), Some(0), None, Some(4), Some(0), None, None], false, 11);
    delta_total!(k_delta_total_l1_over_r2_k3, 7, [Some(1), Some(0), None, Some(5), Some(0), None, None], false, 11);
    delta_total!(k_delta_total_l1_over_r2_kbig, 7, [Some(1), Some(0), None, Some(255), Some(255), None, None], false, 11);
    delta_total!(k_delta_total_l1_0_trunc, 6, [Some(1), Some(0), None, Some(0), Some(0), None], false, 10);
    delta_total!(k_delta_total_l1_0_over_r0_k1, 7, [Some(1), Some(0), None, Some(0), Some(0), Some(1), Some(0)], false, 11);
    delta_total!(k_delta_total_l1_0_over_r0_k2, 7, [Some(1), Some(0), None, Some(0), Some(0), Some(2), Some(0)], false, 11);
    delta_total!(k_delta_total_l1_0_over_r0_k3, 7, [Some(1), Some(0), None, Some(0), Some(0), Some(3), Some(0)], false, 11);
    delta_total!(k_delta_total_l1_0_over_r0_kbig, 7, [Some(1), Some(0), None, Some(0), Some(0), Some(255), Some(255)], false, 11);
    delta_total!(k_delta_total_l1_0_0_end, 7, [Some(1), Some(0), None, Some(0), Some(0), Some(0), Some(0)], true, 11);
    delta_total!(k_delta_total_l1_1_end, 6, [Some(1), Some(0), None, Some(1), Some(0), None], true, 10);
    delta_total!(k_delta_total_l1_1_trunc, 7, [Some(1), Some(0), None, Some(1), Some(0), None, None], false, 11);
    delta_total!(k_delta_total_l1_2_end, 7, [Some(1), Some(0), None, Some(2), Some(0), None, None], true, 11);
    delta_total!(k_delta_total_l2_over_r0_k1, 6, [Some(2), Some(0), None, None, Some(1), Some(0)], false, 10);
    delta_total!(k_delta_total_l2_over_r0_k2, 6, [Some(2), Some(0), None, None, Some(2), Some(0)], false, 10);
    delta_total!(k_delta_total_l2_over_r0_k3, 6, [Some(2), Some(0), None, None, Some(3), Some(0)], false, 10);
    delta_total!(k_delta_total_l2_over_r0_kbig, 6, [Some(2), Some(0), None, None, Some(255), Some(255)], false, 10);
    delta_total!(k_delta_total_l2_over_r1_k1, 7, [Some(2), Some(0), None, None, Some(2), Some(0), None], false, 11);
    delta_total!(k_delta_total_l2_over_r1_k2, 7, [Some(2), Some(0), None, None, Some(3), Some(0), None], false, 11);
    delta_total!(k_delta_total_l2_over_r1_k3, 7, [Some(2), Some(0), None, None, Some(4), Some(0), None], false, 11);
    delta_total!(k_delta_total_l2_over_r1_kbig, 7, [Some(2), Some(0), None, None, Some(255), Some(255), None], false, 11);
    delta_total!(k_delta_total_l2_0_end, 6, [Some(2), Some(0), None, None, Some(0), Some(0)], true, 10);
    delta_total!(k_delta_total_l2_0_trunc, 7, [Some(2), Some(0), None, None, Some(0), Some(0), None], false, 11);
    delta_total!(k_delta_total_l2_1_end, 7, [Some(2), Some(0), None, None, Some(1), Some(0), None], true, 11);
    delta_total!(k_delta_total_l3_trunc, 6, [Some(3), Some(0), None, None, None, None], false, 10);
    delta_total!(k_delta_total_l3_over_r0_k1, 7, [Some(3), Some(0), None, None, None, Some(1), Some(0)], false, 11);
    delta_total!(k_delta_total_l3_over_r0_k2, 7, [Some(3), Some(0), None, None, None, Some(2), Some(0)], false, 11);
    delta_total!(k_delta_total_l3_over_r0_k3, 7, [Some(3), Some(0), None, None, None, Some(3), Some(0)], false, 11);
    delta_total!(k_delta_total_l3_over_r0_kbig, 7, [Some(3), Some(0), None, None, None, Some(255), Some(255)], false, 11);
    delta_total!(k_delta_total_l3_0_end, 7, [Some(3), Some(0), None, None, None, Some(0), Some(0)], true, 11);
    delta_total!(k_delta_total_l4_end, 6, [Some(4), Some(0), None, None, None, None], true, 10);
    delta_total!(k_delta_total_l4_trunc, 7, [Some(4), Some(0), None, None, None, None, None], false, 11);
    delta_total!(k_delta_total_l5_end, 7, [Some(5), Some(0), None, None, None, None, None], true, 11);
}
