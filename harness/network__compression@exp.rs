#[cfg(kani)]
mod verif_exp {
    use super::*;
    fn rebuf<const M: usize>(v: &Vec<u8>) -> ([u8; M], usize) {
        let mut a = [0u8; M];
        let n = v.len();
        assert!(n <= M);
        let mut i = 0;
        while i < M { if i < n { a[i] = v[i]; } i += 1; }
        (a, n)
    }
    #[kani::proof]
    #[kani::unwind(6)]
    fn x_rt_len1() {
        let buf: [u8; 1] = kani::any();
        let enc = bitfield_rle::encode(&buf[..]);
        let (a, n) = rebuf::<2>(&enc);
        core::mem::forget(enc);
        let out = bitfield_rle::decode(&a[..n]).unwrap();
        assert!(out.len() == 1 && out[0] == buf[0]);
        core::mem::forget(out);
    }
    #[kani::proof]
    #[kani::unwind(6)]
    fn x_rt_len3() {
        let buf: [u8; 3] = kani::any();
        let enc = bitfield_rle::encode(&buf[..]);
        let (a, n) = rebuf::<4>(&enc);
        core::mem::forget(enc);
        let out = bitfield_rle::decode(&a[..n]).unwrap();
        assert!(out.len() == 3 && out[0] == buf[0] && out[1] == buf[1] && out[2] == buf[2]);
        core::mem::forget(out);
    }
    #[kani::proof]
    #[kani::unwind(6)]
    fn x_total1_nocont() {
        let data: [u8; 1] = kani::any();
        kani::assume(data[0] & 128 == 0 && data[0] < 16);
        let r = bitfield_rle::decode(&data[..]);
        core::mem::forget(r);
    }
    #[kani::proof]
    #[kani::unwind(6)]
    fn x_total1_any() {
        let data: [u8; 1] = kani::any();
        let r = bitfield_rle::decode(&data[..]);
        core::mem::forget(r);
    }
    #[kani::proof]
    #[kani::unwind(6)]
    fn x_declen2_any() {
        let data: [u8; 2] = kani::any();
        let r = bitfield_rle::decode_len(&data[..]);
        core::mem::forget(r);
    }
}
