#[cfg(kani)]
mod verif_codec {
    //! K — codec harnesses (C14, C08): round trip and totality of the real `encode`/`decode`
    //! (ggrs delta layer + the real `bitfield-rle`/`varinteger` crates).
    //! Shapes (lengths) are concrete per harness and enumerated completely up to the stated bound;
    //! all byte values are symbolic and decided by the solver.
    use super::*;

    fn slice_eq(a: &[u8], b: &[u8]) -> bool {
        if a.len() != b.len() {
            return false;
        }
        let mut i = 0;
        while i < a.len() {
            if a[i] != b[i] {
                return false;
            }
            i += 1;
        }
        true
    }

    /// The u16 length prefix is faithful for every length the property states (<= 65535).
    #[kani::proof]
    fn k_len_prefix_u16() {
        let len: usize = kani::any();
        kani::assume(len <= 65535);
        let b = (len as u16).to_le_bytes();
        let back = u16::from_le_bytes([b[0], b[1]]) as usize;
        assert!(back == len);
        kani::cover!(len == 65535);
        kani::cover!(len == 0);
    }

    macro_rules! rle_roundtrip {
        ($name:ident, $n:expr, $unw:expr) => {
            /// RLE layer alone (real bitfield-rle): decode(encode(b)) == b, all buffers of this length.
            #[kani::proof]
            #[kani::unwind($unw)]
            fn $name() {
                let buf: [u8; $n] = kani::any();
                let enc = bitfield_rle::encode(&buf[..]);
                match bitfield_rle::decode(&enc) {
                    Ok(out) => {
                        assert!(slice_eq(&out, &buf));
                        kani::cover!($n == 0 || buf[0] == 0, "starts with a zero run");
                        kani::cover!($n == 0 || buf[$n - 1] == 255, "ends with an ff run");
                        kani::cover!($n == 0 || (buf[0] != 0 && buf[0] != 255), "starts with a literal");
                        core::mem::forget(out);
                    }
                    Err(_) => assert!(false, "rle decode rejected its own encoding"),
                }
                core::mem::forget(enc);
            }
        };
    }
    rle_roundtrip!(k_rle_roundtrip_len1, 1, 4);
    rle_roundtrip!(k_rle_roundtrip_len2, 2, 5);
    rle_roundtrip!(k_rle_roundtrip_len3, 3, 6);
    rle_roundtrip!(k_rle_roundtrip_len4, 4, 7);

    macro_rules! delta_roundtrip {
        ($name:ident, $r:expr, $a:expr, $b:expr, $unw:expr) => {
            /// Delta layer alone: reference of $r bytes, two inputs of $a and $b bytes.
            #[kani::proof]
            #[kani::unwind($unw)]
            fn $name() {
                let reference: [u8; $r] = kani::any();
                let x0: [u8; $a] = kani::any();
                let x1: [u8; $b] = kani::any();
                let xs: Vec<Vec<u8>> = vec![x0.to_vec(), x1.to_vec()];
                let enc = delta_encode(&reference, xs.iter());
                assert!(enc.len() == 4 + $a + $b);
                match delta_decode(&reference, &enc) {
                    Ok(out) => {
                        assert!(out.len() == 2);
                        assert!(slice_eq(&out[0], &x0));
                        assert!(slice_eq(&out[1], &x1));
                        kani::cover!(true, "decoded");
                        core::mem::forget(out);
                    }
                    Err(_) => assert!(false, "delta_decode rejected its own encoding"),
                }
                core::mem::forget(xs);
                core::mem::forget(enc);
            }
        };
    }
    delta_roundtrip!(k_delta_roundtrip_r1_a1_b1, 1, 1, 1, 6);
    delta_roundtrip!(k_delta_roundtrip_r1_a2_b0, 1, 2, 0, 6);
    delta_roundtrip!(k_delta_roundtrip_r2_a1_b2, 2, 1, 2, 7);
    delta_roundtrip!(k_delta_roundtrip_r0_a2_b1, 0, 2, 1, 7);
    delta_roundtrip!(k_delta_roundtrip_r2_a0_b2, 2, 0, 2, 7);
    delta_roundtrip!(k_delta_roundtrip_r3_a3_b3, 3, 3, 3, 8);

    macro_rules! codec_roundtrip {
        ($name:ident, $r:expr, $a:expr, $unw:expr) => {
            /// Whole codec (`encode` then `decode`): reference of $r bytes, one input of $a bytes.
            #[kani::proof]
            #[kani::unwind($unw)]
            fn $name() {
                let reference: [u8; $r] = kani::any();
                let x0: [u8; $a] = kani::any();
                let xs: Vec<Vec<u8>> = vec![x0.to_vec()];
                let enc = encode(&reference, xs.iter());
                match decode(&reference, &enc) {
                    Ok(out) => {
                        assert!(out.len() == 1);
                        assert!(slice_eq(&out[0], &x0));
                        kani::cover!(true, "decoded");
                        core::mem::forget(out);
                    }
                    Err(_) => assert!(false, "decode rejected its own encoding"),
                }
                core::mem::forget(xs);
                core::mem::forget(enc);
            }
        };
    }
    codec_roundtrip!(k_codec_roundtrip_r1_a1, 1, 1, 7);
    codec_roundtrip!(k_codec_roundtrip_r1_a2, 1, 2, 8);
    codec_roundtrip!(k_codec_roundtrip_r2_a1, 2, 1, 7);
    codec_roundtrip!(k_codec_roundtrip_r0_a1, 0, 1, 7);

    macro_rules! decode_total {
        ($name:ident, $n:expr, $unw:expr) => {
            /// Totality: `decode` on every byte string of this length returns Ok or Err
            /// (no panic, overflow or out-of-bounds access), one-byte reference.
            #[kani::proof]
            #[kani::unwind($unw)]
            fn $name() {
                let data: [u8; $n] = kani::any();
                let reference = [0u8; 1];
                let r = decode(&reference, &data[..]);
                kani::cover!(r.is_ok(), "some byte string decodes");
                kani::cover!(r.is_err(), "some byte string is rejected");
                core::mem::forget(r);
            }
        };
    }
    decode_total!(k_decode_total_len1, 1, 6);
    decode_total!(k_decode_total_len2, 2, 6);
}
