#[cfg(kani)]
mod verif_codec {
    //! K — codec harnesses (C14, C08): round trip and totality of the real `encode`/`decode`
    //! (ggrs delta layer + the real `bitfield-rle`/`varinteger` crates).
    //! Shapes (lengths) are concrete per harness and enumerated completely up to the stated bound;
    //! all byte values are symbolic and decided by the solver.
    use super::*;

    fn slice_eq(a: &[u8], b: &[u8]) -> bool {
        if a.len() != b.len() {
            return false;
        }
        let mut i = 0;
        while i < a.len() {
            if a[i] != b[i] {
                return false;
            }
            i += 1;
        }
        true
    }

    /// The u16 length prefix is faithful for every length the property states (<= 65535).
    #[kani::proof]
    fn k_len_prefix_u16() {
        let len: usize = kani::any();
        kani::assume(len <= 65535);
        let b = (len as u16).to_le_bytes();
        let back = u16::from_le_bytes([b[0], b[1]]) as usize;
        assert!(back == len);
        kani::cover!(len == 65535);
        kani::cover!(len == 0);
    }

    macro_rules! rle_roundtrip {
        ($name:ident, $n:expr, $unw:expr) => {
            /// RLE layer alone (real bitfield-rle): decode(encode(b)) == b, all buffers of this length.
            #[kani::proof]
            #[kani::unwind($unw)]
            fn $name() {
                let buf: [u8; $n] = kani::any();
                let enc = bitfield_rle::encode(&buf[..]);
                match bitfield_rle::decode(&enc) {
                    Ok(out) => {
                        assert!(slice_eq(&out, &buf));
                        kani::cover!($n == 0 || buf[0] == 0, "starts with a zero run");
                        kani::cover!($n == 0 || buf[$n - 1] == 255, "ends with an ff run");
                        kani::cover!($n == 0 || (buf[0] != 0 && buf[0] != 255), "starts with a literal");
                        core::mem::forget(out);
                    }
                    Err(_) => assert!(false, "rle decode rejected its own encoding"),
                }
                core::mem::forget(enc);
            }
        };
    }
    rle_roundtrip!(k_rle_roundtrip_len1, 1, 4);
    rle_roundtrip!(k_rle_roundtrip_len2, 2, 5);
    rle_roundtrip!(k_rle_roundtrip_len3, 3, 6);
    rle_roundtrip!(k_rle_roundtrip_len4, 4, 7);

    macro_rules! delta_roundtrip {
        ($name:ident, $r:expr, $a:expr, $b:expr, $unw:expr) => {
            /// Delta layer alone: reference of $r bytes, two inputs of $a and $b bytes.
            #[kani::proof]
            #[kani::unwind($unw)]
            fn $name() {
                let reference: [u8; $r] = kani::any();
                let x0: [u8; $a] = kani::any();
                let x1: [u8; $b] = kani::any();
                let xs: Vec<Vec<u8>> = vec![x0.to_vec(), x1.to_vec()];
                let enc = delta_encode(&reference, xs.iter());
                assert!(enc.len() == 4 + $a + $b);
                match delta_decode(&reference, &enc) {
                    Ok(out) => {
                        assert!(out.len() == 2);
                        assert!(slice_eq(&out[0], &x0));
                        assert!(slice_eq(&out[1], &x1));
                        kani::cover!(true, "decoded");
                        core::mem::forget(out);
                    }
                    Err(_) => assert!(false, "delta_decode rejected its own encoding"),
                }
                core::mem::forget(xs);
                core::mem::forget(enc);
            }
        };
    }
    delta_roundtrip!(k_delta_roundtrip_r1_a1_b1, 1, 1, 1, 6);
    delta_roundtrip!(k_delta_roundtrip_r1_a2_b0, 1, 2, 0, 6);
    delta_roundtrip!(k_delta_roundtrip_r2_a1_b2, 2, 1, 2, 7);
    delta_roundtrip!(k_delta_roundtrip_r0_a2_b1, 0, 2, 1, 7);
    delta_roundtrip!(k_delta_roundtrip_r2_a0_b2, 2, 0, 2, 7);
    delta_roundtrip!(k_delta_roundtrip_r3_a3_b3, 3, 3, 3, 8);

    macro_rules! codec_roundtrip {
        ($name:ident, $r:expr, $a:expr, $unw:expr) => {
            /// Whole codec (`encode` then `decode`): reference of $r bytes, one input of $a bytes.
            #[kani::proof]
            #[kani::unwind($unw)]
            fn $name() {
                let reference: [u8; $r] = kani::any();
                let x0: [u8; $a] = kani::any();
                let xs: Vec<Vec<u8>> = vec![x0.to_vec()];
                let enc = encode(&reference, xs.iter());
                match decode(&reference, &enc) {
                    Ok(out) => {
                        assert!(out.len() == 1);
                        assert!(slice_eq(&out[0], &x0));
                        kani::cover!(true, "decoded");
                        core::mem::forget(out);
                    }
                    Err(_) => assert!(false, "decode rejected its own encoding"),
                }
                core::mem::forget(xs);
                core::mem::forget(enc);
            }
        };
    }
    codec_roundtrip!(k_codec_roundtrip_r1_a1, 1, 1, 7);
    codec_roundtrip!(k_codec_roundtrip_r1_a2, 1, 2, 8);
    codec_roundtrip!(k_codec_roundtrip_r2_a1, 2, 1, 7);
    codec_roundtrip!(k_codec_roundtrip_r0_a1, 0, 1, 7);

    fn stub_delta_ok(
        _r: &[u8],
        _d: &[u8],
    ) -> Result<Vec<Vec<u8>>, Box<dyn std::error::Error + Send + Sync>> {
        Ok(Vec::new())
    }

    /// Harness-side reference: decoded size of a well-formed bitfield-rle stream, None if malformed
    /// (truncated varint, truncated literal, varint longer than 5 bytes).
    fn spec_rle_len(d: &[u8]) -> Option<usize> {
        let mut off = 0usize;
        let mut total = 0usize;
        while off < d.len() {
            let mut val: u64 = 0;
            let mut shift = 0u32;
            loop {
                if off >= d.len() || shift > 28 {
                    return None;
                }
                let b = d[off];
                off += 1;
                val |= ((b & 127) as u64) << shift;
                shift += 7;
                if b & 128 == 0 {
                    break;
                }
            }
            if val & 1 == 1 {
                total += (val >> 2) as usize;
            } else {
                let l = (val >> 1) as usize;
                if l > d.len() - off {
                    return None;
                }
                off += l;
                total += l;
            }
        }
        Some(total)
    }

    macro_rules! rle_stage_total {
        ($name:ident, $n:expr, $unw:expr) => {
            /// Totality of the first (RLE) stage of the real `decode` on every byte string of this
            /// length whose well-formed reading decodes to <= 4 bytes: no panic, overflow or
            /// out-of-bounds access; malformed streams are rejected with Err, well-formed ones
            /// accepted (the delta stage is stubbed here; k_delta_total_* decide it separately).
            #[kani::proof]
            #[kani::unwind($unw)]
            #[kani::stub(crate::network::compression::delta_decode, stub_delta_ok)]
            fn $name() {
                let data: [u8; $n] = kani::any();
                let spec = spec_rle_len(&data[..]);
                kani::assume(match spec {
                    Some(n) => n <= 4,
                    None => true,
                });
                let reference = [0u8; 1];
                let r = decode(&reference, &data[..]);
                assert!(r.is_ok() == spec.is_some());
                kani::cover!(r.is_ok(), "some byte string passes the RLE stage");
                kani::cover!(r.is_err(), "some byte string is rejected");
                core::mem::forget(r);
            }
        };
    }
    rle_stage_total!(k_rle_stage_total_len1, 1, 7);
    rle_stage_total!(k_rle_stage_total_len2, 2, 7);
    rle_stage_total!(k_rle_stage_total_len3, 3, 7);

    fn stub_rle_decode_empty<T: AsRef<[u8]>>(
        _buf: T,
    ) -> Result<Vec<u8>, Box<dyn std::error::Error + Send + Sync>> {
        Ok(Vec::new())
    }
    fn stub_rle_identity_dec<T: AsRef<[u8]>>(
        buf: T,
    ) -> Result<Vec<u8>, Box<dyn std::error::Error + Send + Sync>> {
        Ok(buf.as_ref().to_vec())
    }
    fn stub_rle_identity_enc<T: AsRef<[u8]>>(buf: T) -> Vec<u8> {
        buf.as_ref().to_vec()
    }

    /// largest decoded size a legitimate packet can need: 129 pending inputs of 65535 bytes + prefix
    const LEGIT_MAX: usize = 129 * (65535 + 2);

    macro_rules! rle_guard {
        ($name:ident, $n:expr, $unw:expr) => {
            /// What the real `decode` lets through to `bitfield_rle::decode` (both later stages
            /// stubbed): for every byte string of this length, a malformed stream (truncated varint
            /// or literal) is rejected, a stream that would decode to more than 4x the legitimate
            /// maximum is rejected (bounded allocation), and every well-formed stream of legitimate
            /// size is accepted.
            #[kani::proof]
            #[kani::unwind($unw)]
            #[kani::stub(crate::network::compression::delta_decode, stub_delta_ok)]
            #[kani::stub(bitfield_rle::decode, stub_rle_decode_empty)]
            fn $name() {
                let data: [u8; $n] = kani::any();
                let spec = spec_rle_len(&data[..]);
                let reference = [0u8; 1];
                let r = decode(&reference, &data[..]);
                match spec {
                    None => assert!(r.is_err()),
                    Some(total) => {
                        if total > 4 * LEGIT_MAX {
                            assert!(r.is_err());
                        }
                        kani::cover!($n < 4 || total > 4 * LEGIT_MAX, "oversized stream rejected");
                        if total <= LEGIT_MAX {
                            assert!(r.is_ok());
                        }
                    }
                }
                kani::cover!(r.is_ok(), "accepted");
                kani::cover!(spec.is_none(), "malformed");
                core::mem::forget(r);
            }
        };
    }
    rle_guard!(k_rle_guard_len1, 1, 8);
    rle_guard!(k_rle_guard_len2, 2, 8);
    rle_guard!(k_rle_guard_len3, 3, 8);
    rle_guard!(k_rle_guard_len4, 4, 8);
    rle_guard!(k_rle_guard_len5, 5, 8);
    rle_guard!(k_rle_guard_len6, 6, 9);
    rle_guard!(k_rle_guard_len8, 8, 11);
    rle_guard!(k_rle_guard_len12, 12, 15);

    macro_rules! compose_roundtrip {
        ($name:ident, $r:expr, $a:expr, $b:expr, $unw:expr) => {
            /// Composition of the real `encode`/`decode` entry points with the RLE crate replaced
            /// by the identity (justified by k_rle_roundtrip_*): decode(ref, encode(ref, xs)) == xs.
            #[kani::proof]
            #[kani::unwind($unw)]
            #[kani::stub(bitfield_rle::decode, stub_rle_identity_dec)]
            #[kani::stub(bitfield_rle::encode, stub_rle_identity_enc)]
            fn $name() {
                let reference: [u8; $r] = kani::any();
                let x0: [u8; $a] = kani::any();
                let x1: [u8; $b] = kani::any();
                kani::assume($a + $b == 0 || (if $a > 0 { x0[0] } else { x1[0] }) < 16); // keeps the guard's reading of the (un-encoded) bytes small
                let xs: Vec<Vec<u8>> = vec![x0.to_vec(), x1.to_vec()];
                let enc = encode(&reference, xs.iter());
                match decode(&reference, &enc) {
                    Ok(out) => {
                        assert!(out.len() == 2);
                        assert!(slice_eq(&out[0], &x0));
                        assert!(slice_eq(&out[1], &x1));
                        kani::cover!(true, "decoded");
                        core::mem::forget(out);
                    }
                    Err(_) => {}
                }
                core::mem::forget(xs);
                core::mem::forget(enc);
            }
        };
    }

    macro_rules! delta_total {
        ($name:ident, $n:expr, $mask:expr, $ok:expr, $unw:expr) => {
            /// Delta stage totality on one length shape: the 2-byte length prefixes are the concrete
            /// values of the shape (fitting lengths, a truncated prefix, or an over-long claim of
            /// remaining+1/+2/+3/0xFFFF bytes), every payload byte and the reference are symbolic.
            /// `delta_decode` must not panic, must accept exactly the well-formed shapes, and an
            /// accepted buffer must re-encode to the same bytes (no byte dropped or invented).
            #[kani::proof]
            #[kani::unwind($unw)]
            fn $name() {
                const M: [Option<u8>; $n] = $mask;
                let mut data = [0u8; $n];
                let mut i = 0;
                while i < $n {
                    data[i] = match M[i] {
                        Some(b) => b,
                        None => kani::any(),
                    };
                    i += 1;
                }
                let reference: [u8; 2] = kani::any();
                match delta_decode(&reference, &data[..]) {
                    Ok(out) => {
                        assert!($ok, "malformed buffer accepted");
                        let enc = delta_encode(&reference, out.iter());
                        assert!(slice_eq(&enc, &data));
                        core::mem::forget(enc);
                        core::mem::forget(out);
                    }
                    Err(_) => {
                        assert!(!$ok, "well-formed buffer rejected");
                    }
                }
                kani::cover!(true, "verdict reached");
            }
        };
    }
    // quick tier: every shape of total size <= 5 bytes
    delta_total!(k_delta_total_l_trunc, 1, [None], false, 5);
    delta_total!(k_delta_total_l_over_r0_k1, 2, [Some(1), Some(0)], false, 6);
    delta_total!(k_delta_total_l_over_r0_k2, 2, [Some(2), Some(0)], false, 6);
    delta_total!(k_delta_total_l_over_r0_k3, 2, [Some(3), Some(0)], false, 6);
    delta_total!(k_delta_total_l_over_r0_kbig, 2, [Some(255), Some(255)], false, 6);
    delta_total!(k_delta_total_l_over_r1_k1, 3, [Some(2), Some(0), None], false, 7);
    delta_total!(k_delta_total_l_over_r1_k2, 3, [Some(3), Some(0), None], false, 7);
    delta_total!(k_delta_total_l_over_r1_k3, 3, [Some(4), Some(0), None], false, 7);
    delta_total!(k_delta_total_l_over_r1_kbig, 3, [Some(255), Some(255), None], false, 7);
    delta_total!(k_delta_total_l_over_r2_k1, 4, [Some(3), Some(0), None, None], false, 8);
    delta_total!(k_delta_total_l_over_r2_k2, 4, [Some(4), Some(0), None, None], false, 8);
    delta_total!(k_delta_total_l_over_r2_k3, 4, [Some(5), Some(0), None, None], false, 8);
    delta_total!(k_delta_total_l_over_r2_kbig, 4, [Some(255), Some(255), None, None], false, 8);
    delta_total!(k_delta_total_l_over_r3_k1, 5, [Some(4), Some(0), None, None, None], false, 9);
    delta_total!(k_delta_total_l_over_r3_k2, 5, [Some(5), Some(0), None, None, None], false, 9);
    delta_total!(k_delta_total_l_over_r3_k3, 5, [Some(6), Some(0), None, None, None], false, 9);
    delta_total!(k_delta_total_l_over_r3_kbig, 5, [Some(255), Some(255), None, None, None], false, 9);
    delta_total!(k_delta_total_l0_end, 2, [Some(0), Some(0)], true, 6);
    delta_total!(k_delta_total_l0_trunc, 3, [Some(0), Some(0), None], false, 7);
    delta_total!(k_delta_total_l0_over_r0_k1, 4, [Some(0), Some(0), Some(1), Some(0)], false, 8);
    delta_total!(k_delta_total_l0_over_r0_k2, 4, [Some(0), Some(0), Some(2), Some(0)], false, 8);
    delta_total!(k_delta_total_l0_over_r0_k3, 4, [Some(0), Some(0), Some(3), Some(0)], false, 8);
    delta_total!(k_delta_total_l0_over_r0_kbig, 4, [Some(0), Some(0), Some(255), Some(255)], false, 8);
    delta_total!(k_delta_total_l0_over_r1_k1, 5, [Some(0), Some(0), Some(2), Some(0), None], false, 9);
    delta_total!(k_delta_total_l0_over_r1_k2, 5, [Some(0), Some(0), Some(3), Some(0), None], false, 9);
    delta_total!(k_delta_total_l0_over_r1_k3, 5, [Some(0), Some(0), Some(4), Some(0), None], false, 9);
    delta_total!(k_delta_total_l0_over_r1_kbig, 5, [Some(0), Some(0), Some(255), Some(255), None], false, 9);
    delta_total!(k_delta_total_l0_0_end, 4, [Some(0), Some(0), Some(0), Some(0)], true, 8);
    delta_total!(k_delta_total_l0_0_trunc, 5, [Some(0), Some(0), Some(0), Some(0), None], false, 9);
    delta_total!(k_delta_total_l0_1_end, 5, [Some(0), Some(0), Some(1), Some(0), None], true, 9);
    delta_total!(k_delta_total_l1_end, 3, [Some(1), Some(0), None], true, 7);
    delta_total!(k_delta_total_l1_trunc, 4, [Some(1), Some(0), None, None], false, 8);
    delta_total!(k_delta_total_l1_over_r0_k1, 5, [Some(1), Some(0), None, Some(1), Some(0)], false, 9);
    delta_total!(k_delta_total_l1_over_r0_k2, 5, [Some(1), Some(0), None, Some(2), Some(0)], false, 9);
    delta_total!(k_delta_total_l1_over_r0_k3, 5, [Some(1), Some(0), None, Some(3), Some(0)], false, 9);
    delta_total!(k_delta_total_l1_over_r0_kbig, 5, [Some(1), Some(0), None, Some(255), Some(255)], false, 9);
    delta_total!(k_delta_total_l1_0_end, 5, [Some(1), Some(0), None, Some(0), Some(0)], true, 9);
    delta_total!(k_delta_total_l2_end, 4, [Some(2), Some(0), None, None], true, 8);
    delta_total!(k_delta_total_l2_trunc, 5, [Some(2), Some(0), None, None, None], false, 9);
    delta_total!(k_delta_total_l3_end, 5, [Some(3), Some(0), None, None, None], true, 9);
}
