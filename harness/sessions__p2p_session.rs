#[cfg(kani)]
pub(crate) mod verif_p {
    //! P — `P2PSession` bounded runs from the real initial state (C01-C04, C07, C09, C11, C16, C18).
    //! Registry shape "noep": remote players are registered in `handles`, but no endpoint objects
    //! exist, so the protocol layer is cut off and remote inputs enter through the real
    //! `handle_event(Event::Input)` (what `poll_remote_clients` calls for a decoded packet).
    //! Arrival schedules are concrete tables enumerated completely up to the stated bound inside
    //! each harness (one solver query covers every schedule of the table and every input value).
    use super::*;
    use crate::verif_common::{step, CfgDef, CfgRL, NullSocket};
    use crate::InputPredictor;

    pub(crate) const MAXF: usize = 12;

    pub(crate) struct Oracle {
        pub game_frame: Frame,
        pub state: u32,
        /// state at the start of frame f on the current timeline
        pub hist: [u32; MAXF],
        /// inputs (value,status code) of the last simulation of frame f
        pub last_used: [[(u8, u8); 2]; MAXF],
        pub simulated_upto: Frame,
        pub truth: [[u8; MAXF]; 2],
        /// newest frame received per player when the current advance_frame call started
        pub recv: [Frame; 2],
        pub saves: usize,
        pub loads: usize,
        pub advances: usize,
    }

    pub(crate) fn status_code(s: InputStatus) -> u8 {
        match s {
            InputStatus::Confirmed => 0,
            InputStatus::Predicted => 1,
            InputStatus::Disconnected => 2,
        }
    }

    impl Oracle {
        pub(crate) fn new() -> Self {
            Oracle {
                game_frame: 0,
                state: 1,
                hist: [0; MAXF],
                last_used: [[(0, 9); 2]; MAXF],
                simulated_upto: -1,
                truth: [[0; MAXF]; 2],
                recv: [NULL_FRAME; 2],
                saves: 0,
                loads: 0,
                advances: 0,
            }
        }
    }

    pub(crate) fn mk_session_noep<T: Config<Address = u8>>(
        w: usize,
        sparse: bool,
        delay: usize,
        desync: DesyncDetection,
    ) -> P2PSession<T> {
        let mut reg = PlayerRegistry::<T> {
            handles: HashMap::new(),
            remotes: HashMap::new(),
            spectators: HashMap::new(),
        };
        reg.handles.insert(0, PlayerType::Local);
        reg.handles.insert(1, PlayerType::Remote(9));
        let mut s = P2PSession::<T>::new(2, w, Box::new(NullSocket), reg, sparse, desync, delay, 60);
        s.state = SessionState::Running;
        s
    }

    /// Executes one request list against the oracle game; asserts C02/C03/C04 per request.
    pub(crate) fn exec_requests<T: Config<Input = u8, State = u32>, P: InputPredictor<u8>>(
        o: &mut Oracle,
        reqs: Vec<GgrsRequest<T>>,
        w: usize,
        confirmed_before: Frame,
    ) {
        let lockstep = w == 0;
        for r in reqs {
            match r {
                GgrsRequest::SaveGameState { cell, frame } => {
                    assert!(!lockstep, "C04: lockstep never saves");
                    assert!(frame == o.game_frame, "C02: save names the frame the game is at");
                    cell.save(frame, Some(o.state), Some(o.state as u128));
                    o.saves += 1;
                    core::mem::forget(cell);
                }
                GgrsRequest::LoadGameState { cell, frame } => {
                    assert!(!lockstep, "C04: lockstep never loads");
                    assert!(frame >= 0 && frame < o.game_frame, "C02: load names an earlier frame");
                    assert!(frame >= o.game_frame - w as Frame, "C04: load within the prediction window");
                    assert!(cell.frame() == frame, "C02: cell still holds the requested frame");
                    let st = cell.load();
                    assert!(st == Some(o.hist[frame as usize]), "C02: cell holds the state of the current timeline");
                    o.state = o.hist[frame as usize];
                    o.game_frame = frame;
                    o.loads += 1;
                    core::mem::forget(cell);
                }
                GgrsRequest::AdvanceFrame { inputs } => {
                    assert!(inputs.len() == 2);
                    let f = o.game_frame;
                    assert!((f as usize) < MAXF - 1);
                    if f == 0 && !lockstep && o.simulated_upto < 0 {
                        assert!(o.saves >= 1, "C02: save of frame 0 precedes its first simulation");
                    }
                    if f > o.simulated_upto {
                        // a new frame is simulated: C04 speculation bound
                        assert!(f - confirmed_before <= w as Frame, "C04: speculation bounded by the window");
                        o.simulated_upto = f;
                    }
                    let mut vals = [0u8; 2];
                    let mut h = 0;
                    while h < 2 {
                        let (v, st) = inputs[h];
                        vals[h] = v;
                        let r = o.recv[h];
                        match st {
                            InputStatus::Confirmed => {
                                assert!(f <= r, "C03: Confirmed only if received");
                                assert!(v == o.truth[h][f as usize], "C03: Confirmed carries the real input");
                            }
                            InputStatus::Predicted => {
                                assert!(h != 0, "C03: local inputs are always Confirmed");
                                assert!(!lockstep, "C04: lockstep never predicts");
                                assert!(f > r, "C03: Predicted only if not received");
                                let want = if r < 0 { 0 } else { P::predict(o.truth[h][r as usize]) };
                                assert!(v == want, "C03: prediction = predictor(newest received)");
                            }
                            InputStatus::Disconnected => {
                                assert!(false, "no player is disconnected in this run");
                            }
                        }
                        o.last_used[f as usize][h] = (v, status_code(st));
                        h += 1;
                    }
                    o.state = step(o.state, &vals);
                    o.game_frame = f + 1;
                    o.hist[(f + 1) as usize] = o.state;
                    o.advances += 1;
                    core::mem::forget(inputs);
                }
            }
        }
    }

    /// One run: ticks of (k remote inputs arrive, local input submitted, advance_frame_after_poll).
    pub(crate) fn run_schedule<T: Config<Input = u8, State = u32, Address = u8>, P: InputPredictor<u8>>(
        w: usize,
        sparse: bool,
        delay: usize,
        remote_first: Frame,
        sched: &[u8],
        sym_from: usize,
    ) {
        let mut s = mk_session_noep::<T>(w, sparse, delay, DesyncDetection::Off);
        let mut o = Oracle::new();
        o.hist[0] = o.state;
        let mut next_remote: Frame = remote_first;
        let mut confirmed_prev: Frame = NULL_FRAME;
        let mut last_submitted: Frame = NULL_FRAME;
        let mut t = 0;
        while t < sched.len() {
            let mut j = 0;
            while j < sched[t] {
                let v: u8 = if t >= sym_from { kani::any() } else { (next_remote as u8).wrapping_mul(7).wrapping_add(3) };
                o.truth[1][next_remote as usize] = v;
                s.handle_event(Event::Input { input: PlayerInput::new(next_remote, v), player: 1 }, vec![1], 9);
                next_remote += 1;
                j += 1;
            }
            let inp: u8 = if t >= sym_from { kani::any() } else { (t as u8).wrapping_mul(5).wrapping_add(1) };
            let before = s.current_frame();
            if s.add_local_input(0, inp).is_err() {
                assert!(false, "add_local_input rejected a local handle");
            }
            // what has been received when the call starts (local: includes this tick's submission)
            o.recv[1] = if next_remote > remote_first { next_remote - 1 } else { NULL_FRAME };
            o.recv[0] = before + delay as Frame;
            if before > last_submitted {
                // the first submission for a frame is the one the session keeps (a retry after a
                // stall is dropped as non-sequential); it lands at before+delay
                o.truth[0][before as usize + delay] = inp;
                last_submitted = before;
            }
            let confirmed_before = if o.recv[0] < o.recv[1] { o.recv[0] } else { o.recv[1] };
            let res = s.advance_frame_after_poll();
            let reqs = match res {
                Ok(r) => r,
                Err(_) => {
                    assert!(false, "advance_frame returned an error in a valid run");
                    Vec::new()
                }
            };
            exec_requests::<T, P>(&mut o, reqs, w, confirmed_before);
            // C02 tail: game frame == current_frame, unchanged or +1
            let after = s.current_frame();
            assert!(o.game_frame == after, "C02: game frame equals current_frame()");
            assert!(after == before || after == before + 1, "C02: at most one new frame per call");
            if w == 0 && after == before {
                kani::cover!(true, "lockstep stall");
            }
            // C03: confirmed_frame never decreases
            let cf = s.confirmed_frame();
            assert!(cf >= confirmed_prev, "C03: confirmed_frame() is monotone");
            confirmed_prev = cf;
            // C01: every simulated frame whose inputs have all arrived was last simulated with the truth
            let mut f: Frame = 0;
            let mut serial: u32 = 1;
            while f < after {
                let have_remote = next_remote > remote_first && f < next_remote;
                if have_remote {
                    let tl = if (f as usize) < delay { 0 } else { o.truth[0][f as usize] };
                    let tr = if f < remote_first { 0 } else { o.truth[1][f as usize] };
                    assert!(o.last_used[f as usize][0].0 == tl, "C01: local input of the last simulation is the true one");
                    assert!(o.last_used[f as usize][1].0 == tr, "C01: remote input of the last simulation is the true one");
                    assert!(o.last_used[f as usize][1].1 == 0 && o.last_used[f as usize][0].1 == 0, "C01/C03: confirmed");
                    serial = step(serial, &[tl, tr]);
                    // contiguous prefix of confirmed frames => state equals the serial replay
                    assert!(o.hist[(f + 1) as usize] == serial, "C01: state equals the serial replay of the true inputs");
                } else {
                    break;
                }
                f += 1;
            }
            t += 1;
        }
        kani::cover!(o.loads > 0, "a rollback happened");
        kani::cover!(o.advances > sched.len(), "a resimulation happened");
        core::mem::forget(s);
    }

    /// measurement probe: one concrete schedule, rollback after a late remote input
    #[kani::proof]
    #[kani::unwind(4)]
    #[kani::stub(alloc::fmt::format, crate::verif_common::stub_format)]
    fn p_probe_sched_0_0_2_1() {
        run_schedule::<CfgRL, crate::PredictRepeatLast>(2, false, 0, 0, &[0, 0, 2, 1], 0);
    }
    #[kani::proof]
    #[kani::unwind(4)]
    #[kani::stub(alloc::fmt::format, crate::verif_common::stub_format)]
    fn p_probe_one_tick() {
        run_schedule::<CfgRL, crate::PredictRepeatLast>(2, false, 0, 0, &[1], 0);
    }
    #[kani::proof]
    #[kani::unwind(4)]
    #[kani::stub(alloc::fmt::format, crate::verif_common::stub_format)]
    fn p_probe_concrete4() {
        run_schedule::<CfgRL, crate::PredictRepeatLast>(2, false, 0, 0, &[0, 0, 2, 1], 9);
    }
    #[kani::proof]
    #[kani::unwind(4)]
    #[kani::stub(alloc::fmt::format, crate::verif_common::stub_format)]
    fn p_probe_concrete3_sym1() {
        run_schedule::<CfgRL, crate::PredictRepeatLast>(2, false, 0, 0, &[0, 0, 2, 1], 3);
    }

    #[kani::proof]
    #[kani::unwind(4)]
    #[kani::stub(alloc::fmt::format, crate::verif_common::stub_format)]
    fn p_probe_bare_tick() {
        let mut s = mk_session_noep::<CfgRL>(2, false, 0, DesyncDetection::Off);
        let inp: u8 = kani::any();
        if s.add_local_input(0, inp).is_err() {
            assert!(false);
        }
        match s.advance_frame_after_poll() {
            Ok(reqs) => {
                assert!(reqs.len() == 3);
                core::mem::forget(reqs);
            }
            Err(_) => assert!(false),
        }
        assert!(s.current_frame() == 1);
        core::mem::forget(s);
    }
    #[kani::proof]
    #[kani::unwind(4)]
    fn p_probe_new_only() {
        let s = mk_session_noep::<CfgRL>(2, false, 0, DesyncDetection::Off);
        assert!(s.current_frame() == 0);
        core::mem::forget(s);
    }
}
