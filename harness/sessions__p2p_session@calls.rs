#[cfg(kani)]
pub(crate) mod verif_pc {
    //! P/calls — single calls into the real `P2PSession` from constructed states (C07, C09, C10,
    //! C11, C12, C15, C16, C18): event handling, disconnects, checksum bookkeeping, wait
    //! recommendation, event-queue cap, misuse errors. Sessions are built through the real
    //! `P2PSession::new` with a registry written out by hand (endpoints by struct literal).
    use super::verif_p::mk_session_noep;
    use super::*;
    use crate::network::protocol::verif_u as vu;
    use crate::sync_layer::verif_s as vs;
    use crate::verif_common::{stub_encode, stub_format, stub_millis, CfgRL, NullSocket};

    /// local player 0 + remote player 1 at address 9, with a Running endpoint
    pub(crate) fn mk_session_ep(w: usize, desync: DesyncDetection) -> P2PSession<CfgRL> {
        let mut reg = PlayerRegistry::<CfgRL> { handles: HashMap::new(), remotes: HashMap::new(), spectators: HashMap::new() };
        reg.handles.insert(0, PlayerType::Local);
        reg.handles.insert(1, PlayerType::Remote(9));
        reg.remotes.insert(9, vu::mk_ep::<CfgRL>(vec![1], 2, 1, w, true));
        let mut s = P2PSession::<CfgRL>::new(2, w, Box::new(NullSocket), reg, false, desync, 0, 60);
        s.state = SessionState::Running;
        s
    }

    // ------------------------------------------------------------------ remote input events (C01, C10)

    /// handle_event(Input) for a connected player: the newest-frame bookkeeping advances to the
    /// input's frame and the input reaches the player's queue; for a player already marked
    /// disconnected the event changes NOTHING (a late packet of a dropped peer cannot move the
    /// cut-off the survivors agreed on).
    #[kani::proof]
    #[kani::unwind(6)]
    #[kani::stub(alloc::fmt::format, stub_format)]
    fn pc_input_event() {
        let mut s = mk_session_noep::<CfgRL>(2, false, 0, DesyncDetection::Off);
        let v0: u8 = kani::any();
        s.handle_event(Event::Input { input: PlayerInput::new(0, v0), player: 1 }, vec![1], 9);
        assert!(s.local_connect_status[1].last_frame == 0);
        let dropped: bool = kani::any();
        s.local_connect_status[1].disconnected = dropped;
        let v1: u8 = kani::any();
        s.handle_event(Event::Input { input: PlayerInput::new(1, v1), player: 1 }, vec![1], 9);
        let q1 = vs::queue(&s.sync_layer, 1);
        if dropped {
            assert!(s.local_connect_status[1].last_frame == 0, "cut-off of a dropped player is frozen");
            assert!(crate::input_queue::verif_q::la(q1) == 0, "no input of a dropped player is stored");
        } else {
            assert!(s.local_connect_status[1].last_frame == 1);
            assert!(crate::input_queue::verif_q::la(q1) == 1);
            assert!(crate::input_queue::verif_q::slot(q1, 1) == (1, v1));
        }
        assert!(s.event_queue.is_empty(), "remote inputs are not user events");
        kani::cover!(dropped, "late input of a dropped player");
        core::mem::forget(s);
    }

    // ------------------------------------------------------------------ disconnects (C07, C16)

    /// disconnect_player on a remote player (explicit call) at ANY point relative to the newest
    /// input L held for it: the player and every other player behind the same address are marked
    /// disconnected, the endpoint is disconnected, a resimulation from L+1 is scheduled exactly when
    /// frame L+1 has already been simulated (current > L+1), and a second call is rejected with
    /// InvalidRequest and changes nothing. Local and unknown handles are rejected without effect.
    #[kani::proof]
    #[kani::unwind(6)]
    #[kani::stub(crate::network::protocol::millis_since_epoch, stub_millis)]
    #[kani::stub(alloc::fmt::format, stub_format)]
    fn pc_disconnect_player_contract() {
        // local 0; remote players 1 and 2 share address 9
        let mut reg = PlayerRegistry::<CfgRL> { handles: HashMap::new(), remotes: HashMap::new(), spectators: HashMap::new() };
        reg.handles.insert(0, PlayerType::Local);
        reg.handles.insert(1, PlayerType::Remote(9));
        reg.handles.insert(2, PlayerType::Remote(9));
        reg.remotes.insert(9, vu::mk_ep::<CfgRL>(vec![1, 2], 3, 1, 2, true));
        let mut s = P2PSession::<CfgRL>::new(3, 2, Box::new(NullSocket), reg, false, DesyncDetection::Off, 0, 60);
        s.state = SessionState::Running;
        let cur: Frame = kani::any();
        kani::assume(cur >= 0 && cur < (1 << 20));
        let l: Frame = kani::any();
        kani::assume(l >= NULL_FRAME && l <= cur + 2);
        vs::set_current_frame(&mut s.sync_layer, cur);
        s.local_connect_status[1].last_frame = l;
        s.local_connect_status[2].last_frame = l;
        // misuse first: local / unknown handle
        assert!(matches!(s.disconnect_player(0), Err(GgrsError::InvalidRequest { .. })));
        assert!(matches!(s.disconnect_player(7), Err(GgrsError::InvalidRequest { .. })));
        assert!(!s.local_connect_status[0].disconnected && !s.local_connect_status[1].disconnected);
        assert!(s.disconnect_frame == NULL_FRAME);
        let which: usize = if kani::any() { 1 } else { 2 };
        assert!(s.disconnect_player(which).is_ok());
        assert!(s.local_connect_status[1].disconnected && s.local_connect_status[2].disconnected, "both players behind the address");
        assert!(!s.local_connect_status[0].disconnected);
        assert!(s.local_connect_status[1].last_frame == l && s.local_connect_status[2].last_frame == l);
        assert!(vu::is_disconnected_state(s.player_reg.remotes.get(&9).unwrap()));
        if cur > l + 1 {
            assert!(s.disconnect_frame == l + 1, "C07: frames simulated on predictions are resimulated");
        } else {
            assert!(s.disconnect_frame == NULL_FRAME);
        }
        let df = s.disconnect_frame;
        // already disconnected: documented error, no change (either handle of the address)
        let other = 3 - which;
        assert!(matches!(s.disconnect_player(other), Err(GgrsError::InvalidRequest { .. })));
        assert!(matches!(s.disconnect_player(which), Err(GgrsError::InvalidRequest { .. })));
        assert!(s.disconnect_frame == df);
        kani::cover!(cur == l + 2, "exactly one frame was simulated on a prediction");
        kani::cover!(cur == l + 1, "nothing simulated beyond the inputs");
        core::mem::forget(s);
    }

    /// The endpoint's Disconnected event (timeout or peer request): same effect as the explicit call,
    /// and exactly one GgrsEvent::Disconnected reaches the user.
    #[kani::proof]
    #[kani::unwind(6)]
    #[kani::stub(crate::network::protocol::millis_since_epoch, stub_millis)]
    #[kani::stub(alloc::fmt::format, stub_format)]
    fn pc_disconnected_event() {
        let mut s = mk_session_ep(2, DesyncDetection::Off);
        let cur: Frame = kani::any();
        kani::assume(cur >= 0 && cur < (1 << 20));
        let l: Frame = kani::any();
        kani::assume(l >= NULL_FRAME && l <= cur + 2);
        vs::set_current_frame(&mut s.sync_layer, cur);
        s.local_connect_status[1].last_frame = l;
        s.handle_event(Event::Disconnected, vec![1], 9);
        assert!(s.local_connect_status[1].disconnected && s.local_connect_status[1].last_frame == l);
        assert!(s.disconnect_frame == if cur > l + 1 { l + 1 } else { NULL_FRAME });
        assert!(s.event_queue.len() == 1);
        assert!(matches!(s.event_queue[0], GgrsEvent::Disconnected { addr: 9 }));
        kani::cover!(cur == l + 2, "one frame ahead");
        core::mem::forget(s);
    }

    // ------------------------------------------------------------------ lifecycle forwarding / event cap (C12, C18)

    /// Every endpoint event kind is forwarded as the matching user event carrying the peer address;
    /// the user event queue never exceeds its cap (MAX_EVENT_QUEUE_SIZE, regenerated to 4): the
    /// oldest entries are dropped.
    #[kani::proof]
    #[kani::unwind(8)]
    #[kani::stub(crate::network::protocol::millis_since_epoch, stub_millis)]
    #[kani::stub(alloc::fmt::format, stub_format)]
    fn pc_event_forwarding_and_cap() {
        let mut s = mk_session_ep(2, DesyncDetection::Off);
        let mut i = 0;
        while i < MAX_EVENT_QUEUE_SIZE {
            s.event_queue.push_back(GgrsEvent::NetworkResumed { addr: 1 });
            i += 1;
        }
        let k: u8 = kani::any();
        kani::assume(k < 4);
        let ev = match k {
            0 => Event::Synchronizing { total: 5, count: kani::any() },
            1 => Event::NetworkInterrupted { disconnect_timeout: kani::any::<u16>() as u128 },
            2 => Event::NetworkResumed,
            _ => Event::Synchronized,
        };
        s.handle_event(ev, vec![1], 9);
        assert!(s.event_queue.len() == MAX_EVENT_QUEUE_SIZE, "C12/C18: queue capped");
        let last = &s.event_queue[MAX_EVENT_QUEUE_SIZE - 1];
        match k {
            0 => assert!(matches!(last, GgrsEvent::Synchronizing { addr: 9, total: 5, .. })),
            1 => assert!(matches!(last, GgrsEvent::NetworkInterrupted { addr: 9, .. })),
            2 => assert!(matches!(last, GgrsEvent::NetworkResumed { addr: 9 })),
            _ => assert!(matches!(last, GgrsEvent::Synchronized { addr: 9 })),
        }
        kani::cover!(k == 3, "synchronized");
        core::mem::forget(s);
    }

    /// C18: events the session raises itself (WaitRecommendation) respect the cap as well - a user
    /// who never drains events sees at most MAX_EVENT_QUEUE_SIZE of them.
    #[kani::proof]
    #[kani::unwind(34)]
    #[kani::stub(crate::network::protocol::millis_since_epoch, stub_millis)]
    #[kani::stub(alloc::fmt::format, stub_format)]
    fn pc_wait_recommendation_respects_cap() {
        let mut s = mk_session_ep(2, DesyncDetection::Off);
        let mut i = 0;
        while i < MAX_EVENT_QUEUE_SIZE {
            s.event_queue.push_back(GgrsEvent::NetworkResumed { addr: 1 });
            i += 1;
        }
        vs::set_current_frame(&mut s.sync_layer, 100);
        vu::fill_advantage(s.player_reg.remotes.get_mut(&9).unwrap(), -5, 5);
        s.check_wait_recommendation();
        assert!(s.frames_ahead == 5);
        assert!(s.event_queue.len() <= MAX_EVENT_QUEUE_SIZE, "C18: event queue bounded");
        kani::cover!(true, "reached");
        core::mem::forget(s);
    }

    // ------------------------------------------------------------------ confirmed frame (C03, C04, C01, C09)

    fn confirmed_frame_case(n: usize) {
        let mut reg = PlayerRegistry::<CfgRL> { handles: HashMap::new(), remotes: HashMap::new(), spectators: HashMap::new() };
        reg.handles.insert(0, PlayerType::Local);
        let mut h = 1;
        while h < n {
            reg.handles.insert(h, PlayerType::Remote(8 + h as u8));
            h += 1;
        }
        let mut s = P2PSession::<CfgRL>::new(n, 2, Box::new(NullSocket), reg, false, DesyncDetection::Off, 0, 60);
        s.state = SessionState::Running;
        let mut expect = i32::MAX;
        let mut connected = 0;
        let mut gap = false; // a disconnected player with a lower handle than a connected one
        let mut seen_disc = false;
        let mut i = 0;
        while i < n {
            let lf: Frame = kani::any();
            kani::assume(lf >= NULL_FRAME && lf < (1 << 20));
            let d: bool = kani::any();
            s.local_connect_status[i].last_frame = lf;
            s.local_connect_status[i].disconnected = d;
            if !d {
                connected += 1;
                if lf < expect {
                    expect = lf;
                }
                if seen_disc {
                    gap = true;
                }
            } else {
                seen_disc = true;
            }
            i += 1;
        }
        kani::assume(connected >= 1); // the local player(s) of a live session are never marked disconnected
        assert!(s.confirmed_frame() == expect, "C03/C04: confirmed frame = min over ALL connected players of the newest frame received");
        kani::cover!(gap, "a dropped player has a lower handle than a connected one");
        kani::cover!(connected == 1, "only one player left");
        core::mem::forget(s);
    }
    macro_rules! confirmed_frame_min {
        ($name:ident, $n:expr) => {
            /// confirmed_frame() is the minimum, over every player NOT marked disconnected, of the newest frame received
            /// from it - for every combination of disconnected flags and frames (a dropped player never holds the
            /// confirmed frame back, a connected one always does, whatever their handles' order).
            /// (instance: number of players)
            #[kani::proof]
            #[kani::unwind(8)]
            #[kani::stub(alloc::fmt::format, stub_format)]
            fn $name() {
                confirmed_frame_case($n);
            }
        };
    }
    confirmed_frame_min!(pc_confirmed_frame_min_n2, 2);
    confirmed_frame_min!(pc_confirmed_frame_min_n3, 3);
    confirmed_frame_min!(pc_confirmed_frame_min_n4, 4);

    // ------------------------------------------------------------------ wait recommendation (C15)

    /// check_wait_recommendation: frames_ahead() is the endpoint's averaged advantage; a
    /// WaitRecommendation is raised only if it is >= 3 and the frame is past the earliest allowed
    /// one, carries exactly that value, and pushes the next allowed frame 60 frames ahead.
    #[kani::proof]
    #[kani::unwind(34)]
    #[kani::stub(crate::network::protocol::millis_since_epoch, stub_millis)]
    #[kani::stub(alloc::fmt::format, stub_format)]
    fn pc_wait_recommendation_gate() {
        let mut s = mk_session_ep(2, DesyncDetection::Off);
        let fps_sel: u8 = kani::any();
        s.fps = if fps_sel == 0 { 30 } else if fps_sel == 1 { 60 } else { 120 };
        let cur: Frame = kani::any();
        kani::assume(cur >= 0 && cur < (1 << 20));
        let next: Frame = kani::any();
        kani::assume(next >= 0 && next < (1 << 20));
        vs::set_current_frame(&mut s.sync_layer, cur);
        s.next_recommended_sleep = next;
        let k: i8 = kani::any();
        kani::assume(k >= -8 && k <= 8);
        vu::fill_advantage(s.player_reg.remotes.get_mut(&9).unwrap(), -(k as i32), k as i32);
        // a remote that has been dropped no longer counts: its frozen advantage must not keep feeding the estimate
        let dropped: bool = kani::any();
        s.local_connect_status[1].disconnected = dropped;
        let k: i8 = if dropped { 0 } else { k };
        s.check_wait_recommendation();
        assert!(s.frames_ahead() == k as i32, "C15: frames_ahead = averaged advantage over the CONNECTED remotes (0 if none)");
        if cur > next && k >= 3 {
            assert!(s.event_queue.len() == 1);
            match s.event_queue[0] {
                GgrsEvent::WaitRecommendation { skip_frames } => assert!(skip_frames == k as u32),
                _ => assert!(false, "expected WaitRecommendation"),
            }
            assert!(s.next_recommended_sleep == cur + 60, "successive recommendations >= 60 frames apart");
        } else {
            assert!(s.event_queue.is_empty());
            assert!(s.next_recommended_sleep == next);
        }
        kani::cover!(k == 3 && cur > next, "smallest lead that triggers");
        kani::cover!(k == 2, "lead of two: silent");
        kani::cover!(dropped && cur > next, "the only remote was dropped");
        core::mem::forget(s);
    }

    // ------------------------------------------------------------------ desync detection (C09)

    fn save_cell(s: &P2PSession<CfgRL>, frame: Frame, checksum: u32) {
        let n = vs::num_cells(&s.sync_layer);
        vs::cell_save(&s.sync_layer, frame as usize % n, frame, checksum);
    }

    /// check_checksum_send_interval: a checksum is reported (and remembered locally) only for a frame
    /// at or below the sync layer's LAST CONFIRMED frame - whose saved state is final -, never on the
    /// strength of inputs that arrived in this very call but have not been resimulated yet; the
    /// report carries the frame and checksum of the saved cell.
    fn checksum_send_gate(interval: u32, k: Frame, off: Frame) {
        let mut s = mk_session_ep(3, DesyncDetection::On { interval });
        let iv = interval as Frame;
        let sent: Frame = if k == 0 { NULL_FRAME } else { k * iv }; // last frame a checksum was sent for
        s.last_sent_checksum_frame = sent;
        let due = if sent == NULL_FRAME { iv } else { sent + iv };
        let lc: Frame = kani::any();
        kani::assume(lc >= NULL_FRAME && lc <= due + 2);
        let newest: Frame = kani::any(); // inputs received in this poll: confirmed_frame() is ahead of lc
        kani::assume(newest >= lc && newest <= lc + 4);
        vs::set_last_confirmed(&mut s.sync_layer, lc);
        vs::set_current_frame(&mut s.sync_layer, newest + 1);
        s.local_connect_status[0].last_frame = newest;
        s.local_connect_status[1].last_frame = newest;
        let cks: u32 = kani::any();
        // with sparse saving the due frame itself may have no saved state: the newest saved frame in [due, lc] is
        // reported instead - under ITS OWN frame number (both peers label a checksum with the frame it belongs to)
        // (off is concrete per instance: a symbolic frame would make the cell index symbolic)
        let saved = due + off;
        save_cell(&s, saved, cks);
        s.check_checksum_send_interval();
        let q = vu::sendq_len(s.player_reg.remotes.get(&9).unwrap());
        if due <= lc && saved <= lc {
            assert!(q == 1 && s.last_sent_checksum_frame == saved, "C09: the report names the frame the checksum was computed for");
            assert!(s.local_checksum_history.get(&saved) == Some(&(cks as u128)));
            assert!(off == 0 || !s.local_checksum_history.contains_key(&due));
        } else {
            assert!(q == 0 && s.last_sent_checksum_frame == sent, "C09: never report a frame that is not final yet");
            assert!(s.local_checksum_history.is_empty());
        }
        kani::cover!(due > lc && due <= newest, "inputs for the frame arrived but it has not been re-simulated");
        kani::cover!(saved <= lc, "reported");
        core::mem::forget(s);
    }

    macro_rules! checksum_gate {
        ($name:ident, $iv:expr, $k:expr, $off:expr) => {
            /// (instance: desync interval, number of reports already sent, distance of the saved stand-in frame from the due
            /// frame - 0 = dense saving; confirmed frames and the checksum symbolic)
            #[kani::proof]
            #[kani::unwind(8)]
            #[kani::stub(crate::network::protocol::millis_since_epoch, stub_millis)]
            #[kani::stub(alloc::fmt::format, stub_format)]
            fn $name() {
                checksum_send_gate($iv, $k, $off);
            }
        };
    }
    checksum_gate!(pc_checksum_send_gate_iv1_first, 1, 0, 0);
    checksum_gate!(pc_checksum_send_gate_iv2_third, 2, 2, 0);
    checksum_gate!(pc_checksum_send_gate_iv2_third_sparse, 2, 2, 2);
    checksum_gate!(pc_checksum_send_gate_iv3_tenth, 3, 9, 0);

    /// compare_local_checksums_against_peers: DesyncDetected is raised iff a peer's report and our own
    /// checksum exist for the same frame below the last confirmed frame and differ - carrying exactly
    /// the two values; compared reports are consumed, a report without a local counterpart is KEPT
    /// until the local checksum exists (a lagging peer must still detect the divergence).
    #[kani::proof]
    #[kani::unwind(8)]
    #[kani::stub(crate::network::protocol::millis_since_epoch, stub_millis)]
    #[kani::stub(alloc::fmt::format, stub_format)]
    fn pc_checksum_compare() {
        let mut s = mk_session_ep(3, DesyncDetection::On { interval: 1 });
        let f: Frame = kani::any();
        kani::assume(f >= 1 && f < 1000);
        let lc: Frame = kani::any();
        kani::assume(lc >= NULL_FRAME && lc <= f + 2);
        vs::set_last_confirmed(&mut s.sync_layer, lc);
        let remote: u128 = kani::any::<u32>() as u128;
        let local: u128 = kani::any::<u32>() as u128;
        let have_local: bool = kani::any();
        vu::push_checksum(s.player_reg.remotes.get_mut(&9).unwrap(), f, remote);
        if have_local {
            s.local_checksum_history.insert(f, local);
        }
        s.compare_local_checksums_against_peers();
        let pending = vu::has_checksum(s.player_reg.remotes.get(&9).unwrap(), f);
        if f < lc && have_local {
            assert!(!pending, "compared report consumed");
            if local != remote {
                assert!(s.event_queue.len() == 1);
                match s.event_queue[0] {
                    GgrsEvent::DesyncDetected { frame, local_checksum, remote_checksum, addr } => {
                        assert!(frame == f && local_checksum == local && remote_checksum == remote && addr == 9);
                    }
                    _ => assert!(false, "expected DesyncDetected"),
                }
            } else {
                assert!(s.event_queue.is_empty(), "C09: equal checksums raise no alarm");
            }
        } else {
            assert!(s.event_queue.is_empty());
            assert!(pending, "C09: a report that cannot be compared yet is kept");
        }
        kani::cover!(f < lc && have_local && local != remote, "desync detected");
        kani::cover!(f < lc && !have_local, "local checksum not produced yet");
        core::mem::forget(s);
    }

    // ------------------------------------------------------------------ misuse (C16)

    /// (not on any error path; cut out because its send loop alone exceeds the time cap)
    fn stub_noop_send_ready<T: Config>(_this: &mut P2PSession<T>) {}
    /// (not on the error path of set_input_delay; its fill loop is decided by the q_delay_* harnesses)
    fn stub_set_frame_delay<T: Config>(_this: &mut crate::sync_layer::SyncLayer<T>, _h: PlayerHandle, _d: usize) -> Vec<PlayerInput<T::Input>> {
        Vec::new()
    }

    /// set_input_delay for a remote, spectator-range or unknown handle: InvalidRequest, nothing changes.
    #[kani::proof]
    #[kani::unwind(8)]
    #[kani::stub(crate::network::protocol::millis_since_epoch, stub_millis)]
    #[kani::stub(alloc::fmt::format, stub_format)]
    #[kani::stub(crate::sessions::p2p_session::P2PSession::send_ready_outgoing_inputs_to_remotes, stub_noop_send_ready)]
    #[kani::stub(crate::sync_layer::SyncLayer::set_frame_delay, stub_set_frame_delay)]
    fn pc_set_delay_wrong_handle() {
        let mut s = mk_session_ep(2, DesyncDetection::Off);
        let h: usize = kani::any();
        kani::assume(h >= 1 && h <= 3);
        let d: usize = kani::any();
        assert!(matches!(s.set_input_delay(h, d), Err(GgrsError::InvalidRequest { .. })));
        assert!(s.outgoing_local_inputs.is_empty() && s.local_connect_status[0].last_frame == NULL_FRAME);
        assert!(vu::sendq_len(s.player_reg.remotes.get(&9).unwrap()) == 0);
        kani::cover!(h == 1, "remote handle");
        kani::cover!(h == 3, "unknown handle");
        core::mem::forget(s);
    }

    /// Misuse calls return the documented error and leave the session unchanged: input for a
    /// remote/unknown handle, delay change or stats for the wrong player type.
    #[kani::proof]
    #[kani::unwind(8)]
    #[kani::stub(crate::network::protocol::millis_since_epoch, stub_millis)]
    #[kani::stub(alloc::fmt::format, stub_format)]
    #[kani::stub(crate::network::compression::encode, stub_encode)]
    #[kani::stub(crate::sessions::p2p_session::P2PSession::send_ready_outgoing_inputs_to_remotes, stub_noop_send_ready)]
    fn pc_misuse_errors() {
        let mut s = mk_session_ep(2, DesyncDetection::Off);
        let h: usize = kani::any();
        kani::assume(h >= 1 && h <= 3);
        assert!(matches!(s.add_local_input(h, kani::any()), Err(GgrsError::InvalidRequest { .. })));
        assert!(s.pending_local_inputs.is_empty());
        assert!(matches!(s.network_stats(0), Err(GgrsError::InvalidRequest { .. })));
        assert!(matches!(s.network_stats(h + 1), Err(GgrsError::InvalidRequest { .. })));
        assert!(s.current_frame() == 0 && s.event_queue.is_empty() && s.outgoing_local_inputs.is_empty());
        assert!(vu::sendq_len(s.player_reg.remotes.get(&9).unwrap()) == 0);
        kani::cover!(h == 3, "unknown handle");
        kani::cover!(h == 1, "remote handle");
        core::mem::forget(s);
    }

    fn advance_error(synced: bool, have_input: bool) {
        let mut s = mk_session_noep::<CfgRL>(2, false, 0, DesyncDetection::Off);
        if !synced {
            s.state = SessionState::Synchronizing;
        }
        if have_input {
            assert!(s.add_local_input(0, kani::any()).is_ok());
        }
        match s.advance_frame_after_poll() {
            Err(GgrsError::NotSynchronized) => assert!(!synced),
            Err(GgrsError::InvalidRequest { .. }) => assert!(synced && !have_input),
            _ => assert!(false, "misuse must be rejected"),
        }
        assert!(s.current_frame() == 0 && s.event_queue.is_empty());
        kani::cover!(true, "reached");
        core::mem::forget(s);
    }

    /// advance_frame before synchronisation -> NotSynchronized (even with the input present); the
    /// frame counter and event queue are untouched.
    #[kani::proof]
    #[kani::unwind(8)]
    #[kani::stub(alloc::fmt::format, stub_format)]
    fn pc_advance_not_synchronized() {
        advance_error(false, true);
    }

    /// advance_frame with the local input missing -> InvalidRequest; nothing changes.
    #[kani::proof]
    #[kani::unwind(8)]
    #[kani::stub(alloc::fmt::format, stub_format)]
    fn pc_advance_input_missing() {
        advance_error(true, false);
    }

    /// The session is Running exactly when every endpoint (remote and spectator) has completed its
    /// handshake; one unsynchronised endpoint keeps it Synchronizing.
    #[kani::proof]
    #[kani::unwind(8)]
    #[kani::stub(crate::network::protocol::millis_since_epoch, stub_millis)]
    #[kani::stub(alloc::fmt::format, stub_format)]
    fn pc_running_iff_all_synchronized() {
        let mut reg = PlayerRegistry::<CfgRL> { handles: HashMap::new(), remotes: HashMap::new(), spectators: HashMap::new() };
        reg.handles.insert(0, PlayerType::Local);
        reg.handles.insert(1, PlayerType::Remote(9));
        reg.handles.insert(2, PlayerType::Spectator(7));
        let r_sync: bool = kani::any();
        let s_sync: bool = kani::any();
        reg.remotes.insert(9, vu::mk_ep::<CfgRL>(vec![1], 2, 1, 2, r_sync));
        reg.spectators.insert(7, vu::mk_ep::<CfgRL>(vec![2], 2, 2, 2, s_sync));
        let mut s = P2PSession::<CfgRL>::new(2, 2, Box::new(NullSocket), reg, false, DesyncDetection::Off, 0, 60);
        assert!(s.current_state() == SessionState::Synchronizing);
        s.handle_event(Event::Synchronized, vec![1], 9);
        assert!((s.current_state() == SessionState::Running) == (r_sync && s_sync));
        kani::cover!(r_sync && !s_sync, "spectator still synchronizing");
        core::mem::forget(s);
    }

    // ------------------------------------------------------------------ the tick's glue, piece by piece (C02, C04)
    // A whole advance_frame tick exceeds the symbolic executor (probes/attempted); its glue functions are
    // decided one at a time, the callees that are the subject of other harnesses being stubbed.

    use std::sync::atomic::{AtomicI32, AtomicUsize, Ordering};
    static ADJ_CALLS: AtomicUsize = AtomicUsize::new(0);
    static ADJ_FIRST: AtomicI32 = AtomicI32::new(-7);
    static ADJ_CONF: AtomicI32 = AtomicI32::new(-7);
    fn stub_adjust<T: Config>(_this: &mut P2PSession<T>, first_incorrect: Frame, min_confirmed: Frame, _requests: &mut Vec<GgrsRequest<T>>) {
        ADJ_CALLS.store(ADJ_CALLS.load(Ordering::Relaxed) + 1, Ordering::Relaxed);
        ADJ_FIRST.store(first_incorrect, Ordering::Relaxed);
        ADJ_CONF.store(min_confirmed, Ordering::Relaxed);
    }
    fn stub_noop_rollback<T: Config>(_this: &mut P2PSession<T>, _confirmed: Frame, _requests: &mut Vec<GgrsRequest<T>>) {}
    fn stub_noop_spectators<T: Config>(_this: &mut P2PSession<T>, _confirmed: Frame) {}
    fn stub_register<T: Config>(this: &mut P2PSession<T>) {
        // what register_local_inputs does to the bookkeeping the gate reads (pc_register_local_inputs decides the rest)
        let c = this.sync_layer.current_frame();
        this.local_connect_status[0].last_frame = c;
    }

    /// handle_rollback_and_save (dense saving): a rollback is started iff a misprediction or a pending
    /// disconnect frame exists, from the EARLIEST such frame, the pending disconnect frame is consumed
    /// by it - and whatever happened, the call ends with a SaveGameState for the current frame (a
    /// frame that can still be rolled back to always has a saved state, also when the previous tick
    /// stalled on the same frame).
    #[kani::proof]
    #[kani::unwind(6)]
    #[kani::stub(alloc::fmt::format, stub_format)]
    #[kani::stub(crate::sessions::p2p_session::P2PSession::adjust_gamestate, stub_adjust)]
    fn pc_rollback_and_save_dense() {
        let mut s = mk_session_noep::<CfgRL>(2, false, 0, DesyncDetection::Off);
        let c: Frame = kani::any();
        kani::assume(c >= 0 && c < (1 << 20));
        vs::set_current_frame(&mut s.sync_layer, c);
        // the previous tick may have stalled on this very frame: it is then already the last saved one
        let stalled_before: bool = kani::any();
        vs::set_last_saved(&mut s.sync_layer, if stalled_before { c } else { c - 1 });
        let fi: Frame = kani::any();
        kani::assume(fi >= NULL_FRAME && fi < c);
        let df: Frame = kani::any();
        kani::assume(df >= NULL_FRAME && df < c);
        crate::input_queue::verif_q::set_fi(vs::queue_mut(&mut s.sync_layer, 1), fi);
        s.disconnect_frame = df;
        let confirmed: Frame = kani::any();
        ADJ_CALLS.store(0, Ordering::Relaxed);
        let mut reqs: Vec<GgrsRequest<CfgRL>> = Vec::with_capacity(4);
        s.handle_rollback_and_save(confirmed, &mut reqs);
        let want = if fi == NULL_FRAME { df } else if df == NULL_FRAME || fi < df { fi } else { df };
        if want == NULL_FRAME {
            assert!(ADJ_CALLS.load(Ordering::Relaxed) == 0);
            assert!(s.disconnect_frame == df);
        } else {
            assert!(ADJ_CALLS.load(Ordering::Relaxed) == 1);
            assert!(ADJ_FIRST.load(Ordering::Relaxed) == want, "C01: rollback starts at the earliest wrong frame");
            assert!(ADJ_CONF.load(Ordering::Relaxed) == confirmed);
            assert!(s.disconnect_frame == NULL_FRAME);
        }
        assert!(reqs.len() == 1, "C02: the current frame is saved on every call");
        match &reqs[0] {
            GgrsRequest::SaveGameState { frame, .. } => assert!(*frame == c),
            _ => assert!(false, "expected SaveGameState"),
        }
        assert!(s.sync_layer.last_saved_frame() == c);
        kani::cover!(stalled_before && want == NULL_FRAME, "second call on the same frame");
        kani::cover!(fi != NULL_FRAME && df != NULL_FRAME && df < fi, "disconnect frame earlier than the misprediction");
        core::mem::forget(reqs);
        core::mem::forget(s);
    }

    /// advance_rollback_frame's prediction gate (C04), the rollback and the local-input registration
    /// being stubbed: the last confirmed frame becomes min(confirmed_frame(), current[, last saved if
    /// sparse]); a NEW frame is simulated iff current - that frame < max_prediction (nothing
    /// confirmed yet counts as frame -1 being confirmed: at most max_prediction frames 0..w-1 are
    /// simulated before the first remote input) - so the session never runs more than the window
    /// beyond the newest frame for which it holds every player's input, however long it is starved.
    #[kani::proof]
    #[kani::unwind(6)]
    #[kani::stub(alloc::fmt::format, stub_format)]
    #[kani::stub(crate::sessions::p2p_session::P2PSession::handle_rollback_and_save, stub_noop_rollback)]
    #[kani::stub(crate::sessions::p2p_session::P2PSession::send_confirmed_inputs_to_spectators, stub_noop_spectators)]
    #[kani::stub(crate::sessions::p2p_session::P2PSession::register_local_inputs, stub_register)]
    fn pc_prediction_gate() {
        let w: usize = kani::any();
        kani::assume(w >= 1 && w <= 3);
        let sparse: bool = kani::any();
        let mut s = mk_session_noep::<CfgRL>(3, sparse, 0, DesyncDetection::Off);
        s.max_prediction = w; // (saved-state ring sized for 3; the gate only reads max_prediction)
        let c: Frame = kani::any();
        kani::assume(c >= 0 && c < (1 << 20));
        let l0: Frame = kani::any();
        let l1: Frame = kani::any();
        kani::assume(l0 >= c - 1 && l0 <= c && l1 >= NULL_FRAME && l1 <= c + 2 && l0 >= NULL_FRAME);
        let saved: Frame = kani::any();
        kani::assume(saved >= NULL_FRAME && saved <= c);
        vs::set_current_frame(&mut s.sync_layer, c);
        vs::set_last_saved(&mut s.sync_layer, saved);
        s.local_connect_status[0].last_frame = l0;
        s.local_connect_status[1].last_frame = l1;
        let confirmed = if l0 < l1 { l0 } else { l1 };
        let mut reqs: Vec<GgrsRequest<CfgRL>> = Vec::with_capacity(4);
        s.advance_rollback_frame(&mut reqs);
        let mut lc = confirmed;
        if sparse && saved < lc {
            lc = saved;
        }
        if c < lc {
            lc = c;
        }
        assert!(vs::last_confirmed(&s.sync_layer) == lc);
        let ahead = if lc == NULL_FRAME { c } else { c - lc };
        let advanced = s.sync_layer.current_frame() == c + 1;
        assert!(advanced == (ahead < w as Frame), "C04: simulate a new frame iff inside the prediction window");
        assert!(advanced || s.sync_layer.current_frame() == c, "C04: a stalled call leaves the frame unchanged");
        assert!(reqs.len() == if advanced { 1 } else { 0 });
        if advanced {
            assert!(matches!(&reqs[0], GgrsRequest::AdvanceFrame { .. }));
            // C04 as stated: never more than the window beyond the newest frame with every player's input
            // (dense saving; with sparse saving the bound is relative to the last saved confirmed frame)
            if !sparse {
                assert!(c - confirmed <= w as Frame);
            }
        }
        kani::cover!(!advanced && lc == NULL_FRAME, "starved from the very start: stalls at frame w");
        kani::cover!(!advanced && lc >= 0, "starved mid-game");
        kani::cover!(advanced && ahead == w as Frame - 1, "last frame inside the window");
        core::mem::forget(reqs);
        core::mem::forget(s);
    }

    /// queue holding frames keep..=la with symbolic values (delay 0), for the glue harnesses
    fn queue_with(la: Frame, keep: Frame, vals: &[u8; crate::input_queue::verif_q::RING]) -> crate::input_queue::InputQueue<CfgRL> {
        crate::input_queue::verif_q::build::<CfgRL>(la, keep, NULL_FRAME, vals, None, NULL_FRAME)
    }

    macro_rules! adjust_gamestate_shape {
        ($name:ident, $w:expr, $sparse:expr, $c:expr, $first:expr, $saved:expr, $conf:expr) => {
            /// adjust_gamestate (the rollback itself): exactly one LoadGameState, for the first incorrect
            /// frame (dense) / the last saved frame (sparse), whose cell holds that frame; then the frames
            /// up to the current one are re-advanced without gaps, every re-simulated frame but the loaded
            /// one being saved before it is advanced (dense) / only the confirmed frame (sparse); the frame
            /// counter ends where it started and the prediction state of every queue is reset.
            /// (instance: window, sparse?, current, first incorrect, last saved, confirmed frame; inputs symbolic)
            #[kani::proof]
            #[kani::unwind(6)]
            #[kani::stub(alloc::fmt::format, stub_format)]
            fn $name() {
                let w: usize = $w;
                let c: Frame = $c;
                let first: Frame = $first;
                let mut s = mk_session_noep::<CfgRL>(w, $sparse, 0, DesyncDetection::Off);
                let v0: [u8; crate::input_queue::verif_q::RING] = kani::any();
                let v1: [u8; crate::input_queue::verif_q::RING] = kani::any();
                let la1: Frame = c - 2; // the remote is one frame short of the last simulated frame
                let keep = if $conf >= 1 { $conf - 1 } else { 0 };
                // the remote's queue may still be in prediction mode WITHOUT a misprediction of its own (the rollback is
                // then caused by another player / a disconnect): sticky prediction = its newest input, handed out for
                // frame la1+1.. up to the last simulated frame. The rollback must reset it, or the re-simulation of the
                // frames <= la1 would be fed the stale prediction instead of the stored real inputs.
                let predicting: bool = kani::any();
                let q1 = if predicting {
                    crate::input_queue::verif_q::build::<CfgRL>(la1, keep, c - 1, &v1, Some(v1[la1 as usize % crate::input_queue::verif_q::RING]), NULL_FRAME)
                } else {
                    queue_with(la1, keep, &v1)
                };
                vs::install(&mut s.sync_layer, c, $conf, $saved, queue_with(c - 1, keep, &v0), q1);
                s.local_connect_status[0].last_frame = c - 1;
                s.local_connect_status[1].last_frame = la1;
                let ncell = w + 1;
                let load_from: Frame = if $sparse { $saved } else { first };
                let mut f = load_from;
                while f < c {
                    if !$sparse || f == load_from {
                        vs::cell_save(&s.sync_layer, f as usize % ncell, f, kani::any());
                    }
                    f += 1;
                }
                let mut reqs: Vec<GgrsRequest<CfgRL>> = Vec::with_capacity(8);
                s.adjust_gamestate(first, $conf, &mut reqs);
                assert!(s.sync_layer.current_frame() == c, "C02: the frame counter ends where it started");
                let count = (c - load_from) as usize;
                let mut k = 0;
                match &reqs[0] {
                    GgrsRequest::LoadGameState { cell, frame } => {
                        assert!(*frame == load_from && cell.frame() == load_from, "C02: load names a frame whose cell holds it");
                        assert!(load_from <= first && load_from >= c - w as Frame, "C04: inside the window, not after the wrong frame");
                    }
                    _ => assert!(false, "C02: a rollback starts with the load"),
                }
                k += 1;
                let mut i = 0;
                while i < count {
                    let fr = load_from + i as Frame;
                    let save_expected = if $sparse { fr == $conf } else { i > 0 };
                    if save_expected {
                        match &reqs[k] {
                            GgrsRequest::SaveGameState { frame, .. } => assert!(*frame == fr, "C02: save names the frame the game is at"),
                            _ => assert!(false, "expected SaveGameState"),
                        }
                        k += 1;
                    }
                    match &reqs[k] {
                        GgrsRequest::AdvanceFrame { inputs } => {
                            assert!(inputs.len() == 2);
                            assert!(inputs[0] == (v0[fr as usize % crate::input_queue::verif_q::RING], InputStatus::Confirmed));
                            if fr <= la1 {
                                assert!(inputs[1] == (v1[fr as usize % crate::input_queue::verif_q::RING], InputStatus::Confirmed), "C01: re-simulation uses the real input");
                            } else {
                                assert!(inputs[1] == (v1[la1 as usize % crate::input_queue::verif_q::RING], InputStatus::Predicted));
                            }
                        }
                        _ => assert!(false, "expected AdvanceFrame"),
                    }
                    k += 1;
                    i += 1;
                }
                assert!(reqs.len() == k, "no further request");
                kani::cover!(true, "rollback executed");
                kani::cover!(predicting, "remote queue was in prediction mode without a misprediction of its own");
                core::mem::forget(reqs);
                core::mem::forget(s);
            }
        };
    }
    adjust_gamestate_shape!(pc_adjust_dense_w2_back1, 2, false, 9, 8, 8, 7);
    adjust_gamestate_shape!(pc_adjust_dense_w2_back2, 2, false, 9, 7, 8, 7);
    adjust_gamestate_shape!(pc_adjust_dense_w3_back3, 3, false, 17, 14, 16, 14);
    adjust_gamestate_shape!(pc_adjust_sparse_w2_back2, 2, true, 9, 8, 7, 7);
    adjust_gamestate_shape!(pc_adjust_sparse_w3_back3, 3, true, 17, 16, 14, 15);

    /// Lockstep advance (prediction window 0; registration and spectator feed stubbed): a frame is
    /// simulated iff every connected player's input for it has arrived, with the stored inputs as
    /// Confirmed (blank/Disconnected for players disconnected as of an earlier frame); never a Save or
    /// Load; a stalled call returns nothing and leaves the frame unchanged.
    #[kani::proof]
    #[kani::unwind(6)]
    #[kani::stub(alloc::fmt::format, stub_format)]
    #[kani::stub(crate::sessions::p2p_session::P2PSession::send_confirmed_inputs_to_spectators, stub_noop_spectators)]
    #[kani::stub(crate::sessions::p2p_session::P2PSession::register_local_inputs, stub_register)]
    fn pc_lockstep_frame() {
        let mut s = mk_session_noep::<CfgRL>(0, false, 0, DesyncDetection::Off);
        let c: Frame = 9;
        let v0: [u8; crate::input_queue::verif_q::RING] = kani::any();
        let v1: [u8; crate::input_queue::verif_q::RING] = kani::any();
        let ahead: Frame = kani::any(); // how far the remote's inputs reach: c-1 (missing) .. c+1
        kani::assume(ahead >= -1 && ahead <= 1);
        let la1 = c + ahead;
        vs::install(&mut s.sync_layer, c, c - 1, NULL_FRAME, queue_with(c, c - 2, &v0), queue_with(la1, c - 2, &v1));
        s.local_connect_status[0].last_frame = c;
        let dropped: bool = kani::any();
        let cut: Frame = kani::any();
        kani::assume(cut >= c - 2 && cut <= la1);
        s.local_connect_status[1] = ConnectionStatus { disconnected: dropped, last_frame: if dropped { cut } else { la1 } };
        let mut reqs: Vec<GgrsRequest<CfgRL>> = Vec::with_capacity(4);
        s.advance_lockstep_frame(&mut reqs);
        let have_all = dropped || la1 >= c;
        if have_all {
            assert!(reqs.len() == 1 && s.sync_layer.current_frame() == c + 1);
            match &reqs[0] {
                GgrsRequest::AdvanceFrame { inputs } => {
                    assert!(inputs[0] == (v0[c as usize % crate::input_queue::verif_q::RING], InputStatus::Confirmed));
                    if dropped && cut < c {
                        assert!(inputs[1] == (0, InputStatus::Disconnected));
                    } else {
                        assert!(inputs[1] == (v1[c as usize % crate::input_queue::verif_q::RING], InputStatus::Confirmed), "C04: lockstep only uses confirmed inputs");
                    }
                }
                _ => assert!(false, "C04: lockstep never saves or loads"),
            }
        } else {
            assert!(reqs.is_empty() && s.sync_layer.current_frame() == c, "C04: a stalled call changes nothing");
        }
        kani::cover!(!have_all, "stall");
        kani::cover!(dropped && cut == c, "dropped, but its last real input is for this frame");
        core::mem::forget(reqs);
        core::mem::forget(s);
    }

    // ------------------------------------------------------------------ local inputs, delay changes, spectator feed (C11, C17, C18, C06)

    static SENT_N: AtomicUsize = AtomicUsize::new(0);
    static SENT_F: [AtomicI32; 6] = [AtomicI32::new(-9), AtomicI32::new(-9), AtomicI32::new(-9), AtomicI32::new(-9), AtomicI32::new(-9), AtomicI32::new(-9)];
    static SENT_PLAYERS: [AtomicUsize; 6] = [AtomicUsize::new(0), AtomicUsize::new(0), AtomicUsize::new(0), AtomicUsize::new(0), AtomicUsize::new(0), AtomicUsize::new(0)];
    /// Recorder standing in for `UdpProtocol::send_input` (its own contract: u_send_input_packet_shape):
    /// notes the frame and how many players' inputs each call carries.
    fn stub_send_input<T: Config>(
        _this: &mut crate::network::protocol::UdpProtocol<T>,
        inputs: &HashMap<PlayerHandle, PlayerInput<T::Input>>,
        _cs: &[ConnectionStatus],
    ) {
        let n = SENT_N.load(Ordering::Relaxed);
        assert!(n < 6);
        let mut frame = NULL_FRAME;
        for (_, pi) in inputs.iter() {
            frame = pi.frame;
        }
        SENT_F[n].store(frame, Ordering::Relaxed);
        SENT_PLAYERS[n].store(inputs.len(), Ordering::Relaxed);
        SENT_N.store(n + 1, Ordering::Relaxed);
    }
    fn stub_send_all<T: Config>(_this: &mut crate::network::protocol::UdpProtocol<T>, _socket: &mut Box<dyn NonBlockingSocket<T::Address>>) {}
    fn sent_n() -> usize {
        SENT_N.load(Ordering::Relaxed)
    }
    fn sent_frame(i: usize) -> Frame {
        SENT_F[i].load(Ordering::Relaxed)
    }

    /// two local players 0,1 and one remote player 2 at address 9 (Running endpoint)
    fn mk_session_two_locals(w: usize) -> P2PSession<CfgRL> {
        let mut reg = PlayerRegistry::<CfgRL> { handles: HashMap::new(), remotes: HashMap::new(), spectators: HashMap::new() };
        reg.handles.insert(0, PlayerType::Local);
        reg.handles.insert(1, PlayerType::Local);
        reg.handles.insert(2, PlayerType::Remote(9));
        reg.remotes.insert(9, vu::mk_ep::<CfgRL>(vec![2], 3, 2, w, true));
        let mut s = P2PSession::<CfgRL>::new(3, w, Box::new(NullSocket), reg, false, DesyncDetection::Off, 0, 60);
        s.state = SessionState::Running;
        s
    }

    /// register_local_inputs with two local players: each player's pending input goes into its own
    /// queue and newest-frame bookkeeping; if one player's submission is dropped (its delay was
    /// lowered and the queue has not caught up) the OTHER player's input is still registered; a frame
    /// is handed to the remote endpoint exactly when both players' inputs for it are known, and
    /// nothing of it stays behind in the outgoing buffer.
    #[kani::proof]
    #[kani::unwind(6)]
    #[kani::stub(crate::network::protocol::millis_since_epoch, stub_millis)]
    #[kani::stub(alloc::fmt::format, stub_format)]
    #[kani::stub(crate::network::protocol::UdpProtocol::send_input, stub_send_input)]
    #[kani::stub(crate::network::protocol::UdpProtocol::send_all_messages, stub_send_all)]
    fn x_register_two_local_players() {
        let mut s = mk_session_two_locals(2);
        let c: Frame = 5;
        let v0: [u8; crate::input_queue::verif_q::RING] = kani::any();
        let v1: [u8; crate::input_queue::verif_q::RING] = kani::any();
        // player A (handle a) is in steady state at delay 0; player B's delay was lowered from 1 to 0 in
        // the previous tick, so its queue is one frame ahead and drops this submission
        let a: usize = if kani::any() { 0 } else { 1 };
        let b: usize = 1 - a;
        let qa = queue_with(c - 1, 2, &v0);
        let qb = crate::input_queue::verif_q::build_lagging::<CfgRL>(c, 2, &v1); // newest frame c, newest user frame c-1
        let vals2: [u8; crate::input_queue::verif_q::RING] = kani::any();
        if a == 0 {
            vs::install3(&mut s.sync_layer, c, 3, 4, qa, qb, queue_with(c - 1, 2, &vals2));
        } else {
            vs::install3(&mut s.sync_layer, c, 3, 4, qb, qa, queue_with(c - 1, 2, &vals2));
        }
        s.local_connect_status[a].last_frame = c - 1;
        s.local_connect_status[b].last_frame = c;
        s.local_connect_status[2].last_frame = c - 1;
        s.last_sent_outgoing_input_frame = c - 1;
        // B's input for frame c was queued last tick and waits for A's
        s.outgoing_local_inputs.entry(c).or_default().insert(b, PlayerInput::new(c, v1[c as usize % crate::input_queue::verif_q::RING]));
        let ia: u8 = kani::any();
        let ib: u8 = kani::any();
        assert!(s.add_local_input(a, ia).is_ok() && s.add_local_input(b, ib).is_ok());
        s.register_local_inputs();
        let qa2 = vs::queue(&s.sync_layer, a);
        let qb2 = vs::queue(&s.sync_layer, b);
        assert!(crate::input_queue::verif_q::la(qa2) == c, "the other local player's input is registered");
        assert!(crate::input_queue::verif_q::slot(qa2, c) == (c, ia));
        assert!(crate::input_queue::verif_q::la(qb2) == c, "the lagging player's submission is dropped");
        assert!(s.local_connect_status[a].last_frame == c && s.local_connect_status[b].last_frame == c);
        // frame c is complete now: handed to the endpoint once, nothing stranded
        assert!(sent_n() == 1 && sent_frame(0) == c && SENT_PLAYERS[0].load(Ordering::Relaxed) == 2);
        assert!(s.last_sent_outgoing_input_frame == c);
        assert!(s.outgoing_local_inputs.is_empty(), "C11/C18: no input stranded in the outgoing buffer");
        kani::cover!(a == 1, "the lagging player has the lower handle");
        kani::cover!(a == 0, "the lagging player has the higher handle");
        core::mem::forget(s);
    }

    /// local player 0 (steady state: newest frame la at delay d0) + remote player 1 with a Running endpoint
    fn session_for_delay(d0: usize, la: Frame, vals: &[u8; crate::input_queue::verif_q::RING]) -> P2PSession<CfgRL> {
        let mut s = mk_session_ep(2, DesyncDetection::Off);
        let c = la - d0 as Frame + 1;
        let q0 = crate::input_queue::verif_q::build_delayed::<CfgRL>(la, 2, d0, vals);
        let empty: [u8; crate::input_queue::verif_q::RING] = [0; crate::input_queue::verif_q::RING];
        vs::install(&mut s.sync_layer, c, 3, c - 1, q0, queue_with(c - 1, 2, &empty));
        s.local_connect_status[0].last_frame = la;
        s.local_connect_status[1].last_frame = c - 1;
        s.last_sent_outgoing_input_frame = la;
        s
    }

    /// register_local_inputs while the session's only remote endpoint is in ANY protocol state (Running, still
    /// synchronizing, disconnected, shut down; send_input replaced by the recorder): the local input is queued,
    /// handed on exactly once and REMOVED from the outgoing buffer - so the buffer does not grow by one entry per
    /// frame once every remote has left the Running state (C18: queued outgoing local inputs stay bounded).
    #[kani::proof]
    #[kani::unwind(6)]
    #[kani::stub(crate::network::protocol::millis_since_epoch, stub_millis)]
    #[kani::stub(alloc::fmt::format, stub_format)]
    #[kani::stub(crate::network::protocol::UdpProtocol::send_input, stub_send_input)]
    #[kani::stub(crate::network::protocol::UdpProtocol::send_all_messages, stub_send_all)]
    fn pc_outgoing_drained_any_endpoint_state() {
        let la: Frame = 6;
        let vals: [u8; crate::input_queue::verif_q::RING] = kani::any();
        let mut s = session_for_delay(0, la, &vals);
        let c = s.current_frame();
        let st: u8 = kani::any();
        kani::assume(st < 4);
        vu::set_state(s.player_reg.remotes.get_mut(&9).unwrap(), st);
        let v: u8 = kani::any();
        assert!(s.add_local_input(0, v).is_ok());
        s.register_local_inputs();
        assert!(s.outgoing_local_inputs.is_empty(), "C18: the outgoing buffer is drained whatever state the endpoints are in");
        assert!(s.last_sent_outgoing_input_frame == c && sent_n() == 1 && sent_frame(0) == c);
        kani::cover!(st == 2, "endpoint disconnected");
        kani::cover!(st == 0, "endpoint running");
        core::mem::forget(s);
    }

    macro_rules! delay_change {
        ($name:ident, $d1:expr, $d2:expr) => {
            /// C11 at session level (send_input replaced by a recorder): delay changes from steady state
            /// (delay 1) - one change, or two before the next submission - then the next tick's input:
            /// the frames handed to the endpoint start right after the last sent one, are gapless, each
            /// once, up to the frame the new input lands on; the owner's queue holds the repeated last
            /// input for the frames an increase opened up; a decrease sends nothing until the queue has
            /// caught up; newest-frame bookkeeping matches and nothing is stranded in the outgoing buffer.
            /// (instance: the delay values; input values symbolic)
            #[kani::proof]
            #[kani::unwind(8)]
            #[kani::stub(crate::network::protocol::millis_since_epoch, stub_millis)]
            #[kani::stub(alloc::fmt::format, stub_format)]
            #[kani::stub(crate::network::protocol::UdpProtocol::send_input, stub_send_input)]
            #[kani::stub(crate::network::protocol::UdpProtocol::send_all_messages, stub_send_all)]
            fn $name() {
                let d0: usize = 1;
                let la: Frame = 6;
                let vals: [u8; crate::input_queue::verif_q::RING] = kani::any();
                let mut s = session_for_delay(d0, la, &vals);
                let c = s.current_frame();
                assert!(s.set_input_delay(0, $d1).is_ok());
                let d2: i32 = $d2;
                let d_final: usize = if d2 >= 0 {
                    assert!(s.set_input_delay(0, d2 as usize).is_ok());
                    d2 as usize
                } else {
                    $d1
                };
                let v: u8 = kani::any();
                assert!(s.add_local_input(0, v).is_ok());
                s.register_local_inputs();
                delay_postcondition(&s, la, c, d_final, v, vals[la as usize % crate::input_queue::verif_q::RING]);
                kani::cover!(true, "reached");
                core::mem::forget(s);
            }
        };
    }
    delay_change!(pc_delay_1_to_0, 0, -1);
    // (instances with an increase - 1->2, 1->3, 1->2->3, 1->0->2, 1->3->1 - exceed 20 min of symbolic execution
    //  because of the outgoing-input loop; the fill contract is decided at queue level: q_delay_*)

    fn delay_postcondition(s: &P2PSession<CfgRL>, la: Frame, c: Frame, d_final: usize, v: u8, newest: u8) {
        let q0 = vs::queue(&s.sync_layer, 0);
        let target = c + d_final as Frame;
        if target <= la {
            // the submission is dropped until the queue has caught up: nothing new may be sent
            assert!(crate::input_queue::verif_q::la(q0) == la);
            assert!(sent_n() == 0);
            assert!(s.local_connect_status[0].last_frame == la);
        } else {
            assert!(crate::input_queue::verif_q::la(q0) == target);
            let n = (target - la) as usize;
            assert!(sent_n() == n, "C11: every frame up to the new one is sent, each once");
            let mut i = 0;
            while i < n {
                let f = la + 1 + i as Frame;
                assert!(sent_frame(i) == f, "C11: the stream stays gapless");
                let want = if f == target { v } else { newest };
                assert!(crate::input_queue::verif_q::slot(q0, f) == (f, want), "C11: an increase repeats the last input for the frames it opens up");
                i += 1;
            }
            assert!(s.local_connect_status[0].last_frame == target);
            assert!(s.last_sent_outgoing_input_frame == target);
        }
        assert!(s.outgoing_local_inputs.is_empty(), "C11: nothing stranded in the outgoing buffer");
    }


    /// register_local_inputs with two local players (no endpoint objects, so nothing is sent): each
    /// player's pending input reaches its own queue and newest-frame bookkeeping; when one player's
    /// submission is dropped (its delay was lowered and its queue is still ahead) the OTHER player's
    /// input is registered all the same - whichever of the two comes first in the registry's iteration
    /// order (C17) - and the dropped player's bookkeeping is untouched.
    fn register_two_locals(lagging_first: bool) {
        let mut reg = PlayerRegistry::<CfgRL> { handles: HashMap::new(), remotes: HashMap::new(), spectators: HashMap::new() };
        // insertion order = iteration order of the model: both orders are instantiated
        let a: usize = if lagging_first { 1 } else { 0 }; // the player in steady state
        let b: usize = 1 - a; // the player whose queue is one frame ahead
        reg.handles.insert(b, PlayerType::Local);
        reg.handles.insert(a, PlayerType::Local);
        reg.handles.insert(2, PlayerType::Remote(9));
        let mut s = P2PSession::<CfgRL>::new(3, 2, Box::new(NullSocket), reg, false, DesyncDetection::Off, 0, 60);
        s.state = SessionState::Running;
        let c: Frame = 5;
        let va: [u8; crate::input_queue::verif_q::RING] = kani::any();
        let vb: [u8; crate::input_queue::verif_q::RING] = kani::any();
        let vr: [u8; crate::input_queue::verif_q::RING] = kani::any();
        let qa = queue_with(c - 1, 2, &va);
        let qb = crate::input_queue::verif_q::build_lagging::<CfgRL>(c, 2, &vb);
        if a == 0 {
            vs::install3(&mut s.sync_layer, c, 3, 4, qa, qb, queue_with(c - 1, 2, &vr));
        } else {
            vs::install3(&mut s.sync_layer, c, 3, 4, qb, qa, queue_with(c - 1, 2, &vr));
        }
        s.local_connect_status[a].last_frame = c - 1;
        s.local_connect_status[b].last_frame = c;
        s.local_connect_status[2].last_frame = c - 1;
        let ia: u8 = kani::any();
        let ib: u8 = kani::any();
        assert!(s.add_local_input(a, ia).is_ok() && s.add_local_input(b, ib).is_ok());
        s.register_local_inputs();
        let qa2 = vs::queue(&s.sync_layer, a);
        let qb2 = vs::queue(&s.sync_layer, b);
        assert!(crate::input_queue::verif_q::la(qa2) == c, "C17/C11: the other local player's input is registered");
        assert!(crate::input_queue::verif_q::slot(qa2, c) == (c, ia));
        assert!(s.local_connect_status[a].last_frame == c);
        assert!(crate::input_queue::verif_q::la(qb2) == c && crate::input_queue::verif_q::slot(qb2, c) == (c, vb[c as usize % crate::input_queue::verif_q::RING]), "the lagging player's submission is dropped");
        assert!(s.local_connect_status[b].last_frame == c);
        assert!(s.outgoing_local_inputs.is_empty());
        kani::cover!(true, "reached");
        core::mem::forget(s);
    }

    /// (instance: the lagging player comes first in the registry's iteration order)
    #[kani::proof]
    #[kani::unwind(6)]
    #[kani::stub(alloc::fmt::format, stub_format)]
    fn pc_register_two_locals_lagging_first() {
        register_two_locals(true);
    }

    /// (instance: the lagging player comes second in the registry's iteration order)
    #[kani::proof]
    #[kani::unwind(6)]
    #[kani::stub(alloc::fmt::format, stub_format)]
    fn pc_register_two_locals_lagging_second() {
        register_two_locals(false);
    }

    /// handle_rollback_and_save with SPARSE saving (adjust_gamestate stubbed by the recorder): nothing
    /// is saved while the last saved frame is less than max_prediction frames behind; once it is, the
    /// current frame is saved directly if it is already confirmed, otherwise a rollback to the last
    /// saved state is started (which re-saves on the way) - so the saved state never falls out of the
    /// window a rollback may need.
    #[kani::proof]
    #[kani::unwind(6)]
    #[kani::stub(alloc::fmt::format, stub_format)]
    #[kani::stub(crate::sessions::p2p_session::P2PSession::adjust_gamestate, stub_adjust)]
    fn pc_rollback_and_save_sparse() {
        let w: usize = 3;
        let mut s = mk_session_noep::<CfgRL>(w, true, 0, DesyncDetection::Off);
        let c: Frame = kani::any();
        kani::assume(c >= 3 && c < (1 << 20));
        vs::set_current_frame(&mut s.sync_layer, c);
        let saved: Frame = kani::any();
        kani::assume(saved >= c - w as Frame && saved <= c && saved >= 0);
        vs::set_last_saved(&mut s.sync_layer, saved);
        let confirmed: Frame = kani::any();
        kani::assume(confirmed >= saved && confirmed <= c + 2);
        // (the third case - window exhausted and the frame not confirmed: roll back to the last saved state -
        //  - reaches adjust_gamestate, whose sparse behaviour is decided by pc_adjust_sparse_*)
        kani::assume(c - saved < w as Frame || confirmed >= c);
        ADJ_CALLS.store(0, Ordering::Relaxed);
        let mut reqs: Vec<GgrsRequest<CfgRL>> = Vec::with_capacity(4);
        s.handle_rollback_and_save(confirmed, &mut reqs);
        if c - saved < w as Frame {
            assert!(reqs.is_empty() && ADJ_CALLS.load(Ordering::Relaxed) == 0, "sparse: no save needed yet");
        } else if confirmed >= c {
            assert!(ADJ_CALLS.load(Ordering::Relaxed) == 0 && reqs.len() == 1);
            match &reqs[0] {
                GgrsRequest::SaveGameState { frame, .. } => assert!(*frame == c),
                _ => assert!(false, "expected SaveGameState"),
            }
        }
        kani::cover!(c - saved == w as Frame && confirmed >= c, "window exhausted, frame confirmed");
        kani::cover!(c - saved < w as Frame, "nothing to do");
        core::mem::forget(reqs);
        core::mem::forget(s);
    }

    /// (NOT REGISTERED: runs out of memory at 16 GB; the rollback itself is decided by pc_adjust_sparse_*)
    /// Sparse saving, window exhausted (last saved frame = current - window) and the current frame not
    /// yet confirmed: the real handle_rollback_and_save rolls back to the last saved state and re-saves
    /// exactly the confirmed frame on the way, so afterwards the last saved frame is the confirmed one.
    #[kani::proof]
    #[kani::unwind(6)]
    #[kani::stub(alloc::fmt::format, stub_format)]
    fn x_sparse_resave_by_rollback() {
        let w: usize = 2;
        let c: Frame = 9;
        let saved: Frame = 7;
        let confirmed: Frame = 8;
        let mut s = mk_session_noep::<CfgRL>(w, true, 0, DesyncDetection::Off);
        let v0: [u8; crate::input_queue::verif_q::RING] = kani::any();
        let v1: [u8; crate::input_queue::verif_q::RING] = kani::any();
        vs::install(&mut s.sync_layer, c, saved, saved, queue_with(c - 1, 6, &v0), queue_with(confirmed, 6, &v1));
        vs::cell_save(&s.sync_layer, saved as usize % (w + 1), saved, kani::any());
        let mut reqs: Vec<GgrsRequest<CfgRL>> = Vec::with_capacity(8);
        s.handle_rollback_and_save(confirmed, &mut reqs);
        assert!(reqs.len() == 4);
        assert!(matches!(&reqs[0], GgrsRequest::LoadGameState { frame: 7, .. }));
        assert!(matches!(&reqs[1], GgrsRequest::AdvanceFrame { .. }));
        assert!(matches!(&reqs[2], GgrsRequest::SaveGameState { frame: 8, .. }));
        assert!(matches!(&reqs[3], GgrsRequest::AdvanceFrame { .. }));
        assert!(s.sync_layer.last_saved_frame() == confirmed && s.sync_layer.current_frame() == c);
        kani::cover!(true, "reached");
        core::mem::forget(reqs);
        core::mem::forget(s);
    }

    // ------------------------------------------------------------------ packets from unknown addresses (C08)

    /// a socket that delivers exactly one message, from the given address, on the first receive
    struct OneShotSocket {
        msg: Option<(u8, crate::Message)>,
    }
    impl NonBlockingSocket<u8> for OneShotSocket {
        fn send_to(&mut self, _msg: &crate::Message, _addr: &u8) {}
        fn receive_all_messages(&mut self) -> Vec<(u8, crate::Message)> {
            let mut v = Vec::with_capacity(1);
            if let Some(m) = self.msg.take() {
                v.push(m);
            }
            v
        }
    }

    /// (NOT REGISTERED: exceeds 20 min of symbolic execution - poll_remote_clients walks both endpoint maps)
    /// poll_remote_clients with a packet (any kind, any magic) from an address that is neither a
    /// remote player nor a spectator: it is handed to no endpoint - the endpoint's receive timer,
    /// state and queues, the session's statuses, frame counter and user events are unchanged.
    #[kani::proof]
    #[kani::unwind(6)]
    #[kani::stub(crate::network::protocol::millis_since_epoch, stub_millis)]
    #[kani::stub(alloc::fmt::format, stub_format)]
    #[kani::stub(crate::network::compression::decode, crate::verif_common::stub_decode_err)]
    #[kani::stub(crate::network::compression::encode, stub_encode)]
    fn x_unknown_address_ignored() {
        instant::set_now_ms(100_000);
        let mut reg = PlayerRegistry::<CfgRL> { handles: HashMap::new(), remotes: HashMap::new(), spectators: HashMap::new() };
        reg.handles.insert(0, PlayerType::Local);
        reg.handles.insert(1, PlayerType::Remote(9));
        reg.remotes.insert(9, vu::mk_ep::<CfgRL>(vec![1], 2, 1, 2, true));
        let from: u8 = kani::any();
        kani::assume(from != 9);
        let m = vu::any_message();
        let mut s = P2PSession::<CfgRL>::new(2, 2, Box::new(OneShotSocket { msg: Some((from, m)) }), reg, false, DesyncDetection::Off, 0, 60);
        s.state = SessionState::Running;
        s.poll_remote_clients();
        let ep = s.player_reg.remotes.get(&9).unwrap();
        assert!(vu::last_recv_ms(ep) == 100_000 && vu::sendq_len(ep) == 0 && vu::pending_len(ep) == 0);
        assert!(!vu::is_disconnected_state(ep));
        assert!(s.event_queue.is_empty() && s.current_frame() == 0);
        assert!(!s.local_connect_status[1].disconnected && s.local_connect_status[1].last_frame == NULL_FRAME);
        kani::cover!(from == 0, "address 0");
        core::mem::forget(s);
    }
}
