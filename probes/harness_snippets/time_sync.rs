// Appended to src/time_sync.rs of the scratch copy during the design-phase probes (DESIGN.md §2, §9).

#[cfg(kani)]
mod kani_probe {
    use super::*;
    #[kani::proof]
    fn ts_avg() {
        let mut t = TimeSync::new();
        t.advance_frame(kani::any::<u8>() as i32, kani::any::<i8>() as i32, kani::any::<i8>() as i32);
        let a = t.average_frame_advantage();
        assert!(a >= -128 && a <= 128);
    }
}
