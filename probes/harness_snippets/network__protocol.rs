// Appended to src/network/protocol.rs of the scratch copy during the design-phase probes (DESIGN.md §2, §9).

#[cfg(kani)]
pub(crate) mod kani_support {
    use super::*;

    impl<T: Config> UdpProtocol<T> {
        /// Struct-literal constructor: no rand, no bincode; endpoint optionally Running.
        pub(crate) fn kani_new(
            mut handles: Vec<PlayerHandle>,
            peer_addr: T::Address,
            num_players: usize,
            local_bytes: usize,
            recv_bytes: usize,
            max_prediction: usize,
            running: bool,
        ) -> Self {
            handles.sort_unstable();
            let mut peer_connect_status = Vec::new();
            for _ in 0..num_players {
                peer_connect_status.push(ConnectionStatus::default());
            }
            let mut recv_inputs = HashMap::new();
            recv_inputs.insert(
                NULL_FRAME,
                InputBytes { frame: NULL_FRAME, bytes: vec![0; recv_bytes] },
            );
            let now = Instant::now();
            Self {
                num_players,
                handles,
                send_queue: VecDeque::new(),
                event_queue: VecDeque::new(),
                state: if running { ProtocolState::Running } else { ProtocolState::Synchronizing },
                sync_remaining_roundtrips: NUM_SYNC_PACKETS,
                sync_random_requests: HashSet::new(),
                running_last_quality_report: now,
                running_last_input_recv: now,
                disconnect_notify_sent: false,
                disconnect_event_sent: false,
                disconnect_timeout: Duration::from_millis(2000),
                disconnect_notify_start: Duration::from_millis(500),
                shutdown_timeout: now,
                fps: 60,
                magic: 7,
                peer_addr,
                remote_magic: 0,
                peer_connect_status,
                pending_output: VecDeque::new(),
                last_acked_input: InputBytes { frame: NULL_FRAME, bytes: vec![0; local_bytes] },
                max_prediction,
                recv_inputs,
                time_sync_layer: TimeSync::new(),
                local_frame_advantage: 0,
                remote_frame_advantage: 0,
                stats_start_time: 0,
                round_trip_time: 0,
                last_send_time: now,
                last_sync_request_time: now,
                last_recv_time: now,
                pending_checksums: HashMap::new(),
                desync_detection: DesyncDetection::Off,
            }
        }
    }
}

#[cfg(kani)]
mod kani_probe {
    use super::*;
    use crate::PredictRepeatLast;
    struct Cfg;
    impl Config for Cfg { type Input = u8; type InputPredictor = PredictRepeatLast; type State = u8; type Address = u8; }
    #[kani::proof]
    #[kani::unwind(8)]
    fn proto_new() {
        let p = UdpProtocol::<Cfg>::kani_new(vec![1], 9, 2, 1, 1, 2, true);
        assert!(p.is_running());
        core::mem::forget(p);
    }
    #[kani::proof]
    #[kani::unwind(8)]
    fn proto_poll() {
        let mut p = UdpProtocol::<Cfg>::kani_new(vec![1], 9, 2, 1, 1, 2, true);
        let cs = [ConnectionStatus::default(); 2];
        let n = p.poll(&cs).count();
        assert!(n == 0);
        core::mem::forget(p);
    }
    #[kani::proof]
    #[kani::unwind(8)]
    fn proto_send() {
        let mut p = UdpProtocol::<Cfg>::kani_new(vec![1], 9, 2, 1, 1, 2, true);
        let cs = [ConnectionStatus::default(); 2];
        let mut m = HashMap::new();
        m.insert(0usize, PlayerInput::new(0, kani::any::<u8>()));
        p.send_input(&m, &cs);
        assert!(p.pending_output.len() == 1);
        core::mem::forget(p);
    }
}

#[cfg(kani)]
mod kani_probe2 {
    use super::*;
    use crate::PredictRepeatLast;
    struct Cfg;
    impl Config for Cfg { type Input = u8; type InputPredictor = PredictRepeatLast; type State = u8; type Address = u8; }
    #[kani::proof]
    #[kani::unwind(8)]
    fn proto_keepalive() {
        let mut p = UdpProtocol::<Cfg>::kani_new(vec![1], 9, 2, 1, 1, 2, true);
        p.send_keep_alive();
        assert!(p.send_queue.len() == 1);
        core::mem::forget(p);
    }
    #[kani::proof]
    #[kani::unwind(8)]
    fn proto_cloneinto() {
        let cs = [ConnectionStatus::default(); 2];
        let mut v: Vec<ConnectionStatus> = Vec::new();
        cs[..].clone_into(&mut v);
        assert!(v.len() == 2);
    }
    #[kani::proof]
    #[kani::unwind(8)]
    fn proto_dur() {
        let d = Duration::from_millis(kani::any::<u16>() as u64);
        let e = d.saturating_sub(Duration::from_millis(500));
        let m = Duration::as_millis(&e);
        assert!(m <= 65535);
        let now = Instant::now();
        assert!(!(now + d < now));
    }
    #[kani::proof]
    #[kani::unwind(8)]
    fn proto_qreport() {
        let mut p = UdpProtocol::<Cfg>::kani_new(vec![1], 9, 2, 1, 1, 2, true);
        p.send_quality_report();
        core::mem::forget(p);
    }
}
