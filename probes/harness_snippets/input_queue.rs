// Appended to src/input_queue.rs of the scratch copy during the design-phase probes (DESIGN.md §2, §9).

#[cfg(kani)]
mod kani_probe {
    use super::*;
    use crate::PredictRepeatLast;
    struct Cfg;
    impl Config for Cfg { type Input = u8; type InputPredictor = PredictRepeatLast; type State = u8; type Address = u8; }
    #[kani::proof]
    #[kani::unwind(130)]
    fn iq_basic() {
        let mut q = InputQueue::<Cfg>::new();
        let v: u8 = kani::any();
        assert!(q.add_input(PlayerInput::new(0, v)) == 0);
        let (i, s) = q.input(0);
        assert!(i == v && s == InputStatus::Confirmed);
        let (i2, s2) = q.input(1);
        assert!(i2 == v && s2 == InputStatus::Predicted);
        core::mem::forget(q);
    }
}

#[cfg(kani)]
mod kani_inductive_probe {
    use super::*;
    use crate::PredictRepeatLast;
    struct Cfg;
    impl Config for Cfg { type Input = u8; type InputPredictor = PredictRepeatLast; type State = u8; type Address = u8; }

    const N: usize = INPUT_QUEUE_LENGTH;

    fn any_valid_queue() -> InputQueue<Cfg> {
        let mut q = InputQueue::<Cfg>::new();
        let length: usize = kani::any();
        kani::assume(length >= 1 && length <= N);
        let last_added: Frame = kani::any();
        kani::assume(last_added >= length as i32 - 1 && last_added < 1_000_000);
        let delay: usize = kani::any();
        kani::assume(delay <= 8);
        q.frame_delay = delay;
        q.head = (last_added as usize + 1) % N;
        q.length = length;
        q.tail = (q.head + N - length) % N;
        q.first_frame = false;
        q.last_added_frame = last_added;
        q.last_user_frame = last_added - delay as i32; // steady state
        kani::assume(q.last_user_frame >= 0);
        let first = last_added - (length as i32 - 1);
        let mut k = 0;
        while k < N {
            let idx = (q.tail + k) % N;
            if k < length {
                q.inputs[idx] = PlayerInput::new(first + k as i32, kani::any());
            } else {
                // stale slot: holds the frame one ring-lap older, or nothing
                let fr = first + k as i32 - N as i32;
                q.inputs[idx] = PlayerInput::new(if fr >= 0 { fr } else { NULL_FRAME }, kani::any());
            }
            k += 1;
        }
        q
    }

    fn inv(q: &InputQueue<Cfg>) -> bool {
        if !(q.head < N && q.tail < N && q.length >= 1 && q.length <= N) { return false; }
        if q.head != (q.last_added_frame as usize + 1) % N { return false; }
        if q.tail != (q.head + N - q.length) % N { return false; }
        let first = q.last_added_frame - (q.length as i32 - 1);
        let mut k = 0;
        while k < N {
            if k < q.length && q.inputs[(q.tail + k) % N].frame != first + k as i32 { return false; }
            k += 1;
        }
        true
    }

    #[kani::proof]
    #[kani::unwind(10)]
    fn iq_step_input_then_add() {
        let mut q = any_valid_queue();
        let first = q.last_added_frame - (q.length as i32 - 1);
        let f: Frame = kani::any();
        kani::assume(f >= first && f <= q.last_added_frame + 3);
        let last_val = q.inputs[InputQueue::<Cfg>::prev_pos(q.head)].input;
        let expect = q.inputs[(f as usize) % N].input;
        let (v, st) = q.input(f);
        if f <= q.last_added_frame {
            assert!(st == InputStatus::Confirmed && v == expect);
        } else {
            assert!(st == InputStatus::Predicted && v == last_val);
        }
        // now the next real input arrives
        kani::assume(q.length < N);
        let nv: u8 = kani::any();
        let la = q.last_added_frame;
        let r = q.add_input(PlayerInput::new(q.last_user_frame + 1, nv));
        assert!(r == la + 1);
        assert!(inv(&q));
        if f > la {
            // misprediction detection
            if nv != last_val { assert!(q.first_incorrect_frame() == la + 1); } else { assert!(q.first_incorrect_frame() == NULL_FRAME); }
        }
        core::mem::forget(q);
    }
}
