// Appended to src/network/compression.rs of the scratch copy during the design-phase probes (DESIGN.md §2, §9).

#[cfg(kani)]
mod kani_probe {
    use super::*;
    #[kani::proof]
    #[kani::unwind(6)]
    fn decode_total_le3() {
        let len: usize = kani::any();
        kani::assume(len <= 3);
        let data: [u8; 3] = kani::any();
        let reference = [0u8; 1];
        let r = decode(&reference, &data[..len]);
        core::mem::forget(r);
    }
    #[kani::proof]
    #[kani::unwind(8)]
    fn enc_basic() {
        let r = [0u8; 1];
        let v = vec![vec![kani::any::<u8>()]];
        let e = encode(&r, v.iter());
        assert!(e.len() > 0);
        core::mem::forget(e);
    }
    #[kani::proof]
    #[kani::unwind(8)]
    fn bincode_basic() {
        let mut bytes = Vec::new();
        let x: u8 = kani::any();
        bincode::serialize_into(&mut bytes, &x).unwrap();
        assert!(bytes.len() == 1);
        let y: u8 = bincode::deserialize(&bytes).unwrap();
        assert!(x == y);
    }
}
