// Appended to src/sessions/p2p_session.rs of the scratch copy during the design-phase probes (DESIGN.md §2, §9).

#[cfg(kani)]
mod kani_probe {
    use super::*;
    use crate::{Message, PredictRepeatLast};

    struct Cfg;
    impl Config for Cfg {
        type Input = u8;
        type InputPredictor = PredictRepeatLast;
        type State = u8;
        type Address = u8;
    }

    fn stub_encode<'a>(_reference: &[u8], _pending_input: impl Iterator<Item = &'a Vec<u8>>) -> Vec<u8> { Vec::new() }
    struct NullSocket;
    impl NonBlockingSocket<u8> for NullSocket {
        fn send_to(&mut self, _msg: &Message, _addr: &u8) {}
        fn receive_all_messages(&mut self) -> Vec<(u8, Message)> { Vec::new() }
    }

    fn mk_session_noep(max_pred: usize, sparse: bool) -> P2PSession<Cfg> {
        let mut reg = PlayerRegistry::<Cfg> { handles: HashMap::new(), remotes: HashMap::new(), spectators: HashMap::new() };
        reg.handles.insert(0, PlayerType::Local);
        reg.handles.insert(1, PlayerType::Remote(9));
        let mut s = P2PSession::<Cfg>::new(2, max_pred, Box::new(NullSocket), reg, sparse, DesyncDetection::Off, 0, 60);
        s.state = SessionState::Running;
        s
    }

    fn mk_session(max_pred: usize, sparse: bool, running_ep: bool) -> P2PSession<Cfg> {
        let mut reg = PlayerRegistry::<Cfg> {
            handles: HashMap::new(),
            remotes: HashMap::new(),
            spectators: HashMap::new(),
        };
        reg.handles.insert(0, PlayerType::Local);
        reg.handles.insert(1, PlayerType::Remote(9));
        reg.remotes.insert(9, UdpProtocol::kani_new(vec![1], 9, 2, 1, 1, max_pred, running_ep));
        let mut s = P2PSession::<Cfg>::new(2, max_pred, Box::new(NullSocket), reg, sparse, DesyncDetection::Off, 0, 60);
        s.state = SessionState::Running;
        s
    }

    // symbolic schedule: each tick 0..=2 remote inputs arrive (consecutive frames), symbolic values
    fn run_sym(max_pred: usize, sparse: bool, ticks: usize, noep: bool) {
        let mut s = if noep { mk_session_noep(max_pred, sparse) } else { mk_session(max_pred, sparse, false) };
        let mut game_frame: Frame = 0;
        let mut next_remote: Frame = 0;
        // truth tables
        let mut local_truth = [0u8; 8];
        let mut remote_truth = [0u8; 8];
        let mut last_used = [(0u8, 0u8); 8];
        let mut t = 0;
        while t < ticks {
            let k: u8 = kani::any();
            kani::assume(k <= 2);
            let mut j = 0;
            while j < k {
                let v: u8 = kani::any();
                remote_truth[next_remote as usize] = v;
                s.handle_event(Event::Input { input: PlayerInput::new(next_remote, v), player: 1 }, vec![1], 9);
                next_remote += 1;
                j += 1;
            }
            let inp: u8 = kani::any();
            let cf = s.current_frame();
            s.add_local_input(0, inp).unwrap();
            let before = s.current_frame();
            let reqs = s.advance_frame_after_poll().unwrap();
            for r in reqs {
                match r {
                    GgrsRequest::SaveGameState { cell, frame } => { assert!(frame == game_frame); cell.save(frame, Some(0), None); }
                    GgrsRequest::LoadGameState { frame, .. } => { assert!(frame < game_frame); assert!(frame >= game_frame - max_pred as i32); game_frame = frame; }
                    GgrsRequest::AdvanceFrame { inputs } => {
                        assert!(inputs.len() == 2);
                        last_used[game_frame as usize] = (inputs[0].0, inputs[1].0);
                        if inputs[1].1 == InputStatus::Confirmed { assert!(inputs[1].0 == remote_truth[game_frame as usize]); }
                        game_frame += 1;
                    }
                }
            }
            assert!(game_frame == s.current_frame());
            assert!(s.current_frame() == before || s.current_frame() == before + 1);
            if s.current_frame() == before + 1 { local_truth[cf as usize] = inp; }
            // C01: every frame < current with remote input received was last simulated with the truth
            let mut f = 0;
            while f < s.current_frame() {
                if f < next_remote {
                    assert!(last_used[f as usize].1 == remote_truth[f as usize]);
                    assert!(last_used[f as usize].0 == local_truth[f as usize]);
                }
                f += 1;
            }
            t += 1;
        }
        core::mem::forget(s);
    }

    #[kani::proof]
    #[kani::unwind(12)]
    fn noep_sym_3() { run_sym(2, false, 3, true); }

    #[kani::proof]
    #[kani::unwind(12)]
    fn noep_sym_4_sparse() { run_sym(2, true, 4, true); }

    #[kani::proof]
    #[kani::unwind(12)]
    #[kani::stub(crate::network::compression::encode, stub_encode)]
    fn session_sym_3() { run_sym(2, false, 3, false); }

    #[kani::proof]
    #[kani::unwind(12)]
    #[kani::stub(crate::network::compression::encode, stub_encode)]
    fn session_sym_4_sparse() { run_sym(2, true, 4, false); }

    #[kani::proof]
    #[kani::unwind(12)]
    #[kani::stub(crate::network::compression::encode, stub_encode)]
    fn session_concrete_3_frames() {
        let mut s = mk_session(2, false, false);
        let mut game_frame: Frame = 0;
        for t in 0..3 {
            let inp: u8 = kani::any();
            s.add_local_input(0, inp).unwrap();
            let reqs = s.advance_frame_after_poll().unwrap();
            for r in reqs {
                match r {
                    GgrsRequest::SaveGameState { cell, frame } => { assert!(frame == game_frame); cell.save(frame, Some(0), None); }
                    GgrsRequest::LoadGameState { frame, .. } => { game_frame = frame; }
                    GgrsRequest::AdvanceFrame { inputs } => { assert!(inputs.len() == 2); game_frame += 1; }
                }
            }
            assert!(game_frame == s.current_frame());
            let _ = t;
        }
        core::mem::forget(s);
    }
}
