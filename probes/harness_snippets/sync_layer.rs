// Appended to src/sync_layer.rs of the scratch copy during the design-phase probes (DESIGN.md §2, §9).

#[cfg(kani)]
mod kani_probe {
    use super::*;
    use crate::PredictRepeatLast;
    struct Cfg;
    impl Config for Cfg { type Input = u8; type InputPredictor = PredictRepeatLast; type State = u8; type Address = u8; }
    #[kani::proof]
    fn cell_basic() {
        let c = GameStateCell::<u8>::default();
        c.save(3, Some(kani::any()), None);
        assert!(c.frame() == 3);
        core::mem::forget(c);
    }
    #[kani::proof]
    #[kani::unwind(4)]
    fn sl_basic() {
        let mut sl = SyncLayer::<Cfg>::new(2, 2);
        let r = sl.save_current_state();
        if let GgrsRequest::SaveGameState { cell, frame } = r { cell.save(frame, Some(1), Some(3)); }
        sl.add_local_input(0, PlayerInput::new(0, kani::any()));
        let cs = [ConnectionStatus::default(); 2];
        let inp = sl.synchronized_inputs(&cs);
        assert!(inp[0].1 == InputStatus::Confirmed);
        assert!(inp[1].1 == InputStatus::Predicted);
        sl.advance_frame();
        core::mem::forget(sl);
    }
}
