#[cfg(kani)]
mod verif_b {
    //! B — `SessionBuilder` (C16, C13): accepted configurations == documented ones, every rejection is
    //! InvalidRequest at the documented call. Call sequences are fixed per harness; handles, player
    //! types, counts and settings are symbolic.
    use super::*;
    use crate::SessionState;
    use crate::verif_common::{stub_format, stub_millis, CfgRL, NullSocket};

    fn any_type() -> (PlayerType<u8>, u8) {
        let k: u8 = kani::any();
        kani::assume(k < 3);
        let a: u8 = kani::any();
        kani::assume(a >= 8 && a <= 9);
        (match k { 0 => PlayerType::Local, 1 => PlayerType::Remote(a), _ => PlayerType::Spectator(a) }, k)
    }

    /// add_player: accepted iff the handle is free and in range for its type (players < num_players,
    /// spectators >= num_players); with_num_players re-validates what is already registered.
    #[kani::proof]
    #[kani::unwind(8)]
    #[kani::stub(alloc::fmt::format, stub_format)]
    fn b_add_player_validation() {
        let n: usize = kani::any();
        kani::assume(n <= 3);
        let b = SessionBuilder::<CfgRL>::new();
        let b = match b.with_num_players(n) {
            Ok(b) => {
                assert!(n >= 1);
                b
            }
            Err(GgrsError::InvalidRequest { .. }) => {
                assert!(n == 0, "only zero players is rejected");
                return;
            }
            Err(_) => {
                assert!(false, "documented error kind");
                return;
            }
        };
        let (t1, k1) = any_type();
        let h1: usize = kani::any();
        kani::assume(h1 <= 4);
        let ok1 = if k1 == 2 { h1 >= n } else { h1 < n };
        let b = match b.add_player(t1, h1) {
            Ok(b) => {
                assert!(ok1, "invalid handle accepted");
                b
            }
            Err(GgrsError::InvalidRequest { .. }) => {
                assert!(!ok1, "valid handle rejected");
                return;
            }
            Err(_) => {
                assert!(false);
                return;
            }
        };
        // a second registration of the same handle is rejected, whatever its type
        let (t2, _) = any_type();
        match b.add_player(t2, h1) {
            Err(GgrsError::InvalidRequest { .. }) => {}
            _ => assert!(false, "duplicate handle accepted"),
        }
        kani::cover!(k1 == 2 && h1 == n, "first spectator handle");
        kani::cover!(k1 == 0 && h1 == n - 1, "last player handle");
    }

    /// Changing num_players after registration re-validates the registered handles.
    #[kani::proof]
    #[kani::unwind(8)]
    #[kani::stub(alloc::fmt::format, stub_format)]
    fn b_num_players_revalidates() {
        let (t1, k1) = any_type();
        let h1: usize = kani::any();
        kani::assume(h1 <= 3);
        let b = match SessionBuilder::<CfgRL>::new().add_player(t1, h1) {
            Ok(b) => b,
            Err(_) => return,
        };
        let n2: usize = kani::any();
        kani::assume(n2 >= 1 && n2 <= 4);
        let still_ok = if k1 == 2 { h1 >= n2 } else { h1 < n2 };
        match b.with_num_players(n2) {
            Ok(b) => {
                assert!(still_ok, "registered handle became invalid but was accepted");
                core::mem::forget(b);
            }
            Err(GgrsError::InvalidRequest { .. }) => assert!(!still_ok),
            Err(_) => assert!(false),
        }
        kani::cover!(k1 == 2 && !still_ok, "spectator handle swallowed by a larger player count");
    }

    /// start_p2p_session: accepted iff EVERY player handle 0..num_players is registered as a local or
    /// remote player (spectators do not count) and the desync interval is not 0; the session starts
    /// Synchronizing iff it has any endpoint.
    fn start_p2p(have0: bool, have1: bool, spectators: u8) {
        rand::tape_push(5);
        rand::tape_push(6);
        rand::tape_push(7);
        rand::tape_push(8);
        let remote1: bool = kani::any();
        let interval0: bool = kani::any();
        let mut b = SessionBuilder::<CfgRL>::new();
        if interval0 {
            b = b.with_desync_detection_mode(DesyncDetection::On { interval: 0 });
        }
        if have0 {
            b = b.add_player(PlayerType::Local, 0).unwrap_or_else(|_| SessionBuilder::new());
        }
        if have1 {
            let t = if remote1 { PlayerType::Remote(9) } else { PlayerType::Local };
            b = b.add_player(t, 1).unwrap_or_else(|_| SessionBuilder::new());
        }
        if spectators >= 1 {
            b = b.add_player(PlayerType::Spectator(7), 2).unwrap_or_else(|_| SessionBuilder::new());
        }
        if spectators >= 2 {
            b = b.add_player(PlayerType::Spectator(6), 3).unwrap_or_else(|_| SessionBuilder::new());
        }
        match b.start_p2p_session(NullSocket) {
            Ok(s) => {
                assert!(have0 && have1 && !interval0, "incomplete or invalid configuration accepted");
                let endpoints = (have1 && remote1) || spectators >= 1;
                assert!((s.current_state() == SessionState::Synchronizing) == endpoints);
                assert!(s.num_players() == 2 && s.num_spectators() == spectators as usize);
                core::mem::forget(s);
            }
            Err(GgrsError::InvalidRequest { .. }) => assert!(!(have0 && have1) || interval0, "valid configuration rejected"),
            Err(_) => assert!(false, "documented error kind"),
        }
        kani::cover!(!interval0, "desync interval valid");
        kani::cover!(interval0, "desync interval 0");
    }

    macro_rules! start_p2p_case {
        ($name:ident, $h0:expr, $h1:expr, $sp:expr) => {
            /// (instance: which player handles are registered and how many spectators; player 1's type
            /// and the desync interval are symbolic)
            #[kani::proof]
            #[kani::unwind(8)]
            #[kani::stub(crate::network::protocol::millis_since_epoch, stub_millis)]
            #[kani::stub(alloc::fmt::format, stub_format)]
            fn $name() {
                start_p2p($h0, $h1, $sp);
            }
        };
    }
    start_p2p_case!(b_start_p2p_complete, true, true, 0);
    start_p2p_case!(b_start_p2p_complete_with_spectator, true, true, 1);
    start_p2p_case!(b_start_p2p_player1_missing, true, false, 0);
    start_p2p_case!(b_start_p2p_player1_missing_one_spectator, true, false, 1);
    start_p2p_case!(b_start_p2p_player1_missing_two_spectators, true, false, 2);
    start_p2p_case!(b_start_p2p_player0_missing_two_spectators, false, true, 2);

    /// start_synctest_session (C13, C16) for one concrete prediction window per instance (the session allocates
    /// window+1 save cells: a symbolic window is a symbolic-length allocation), check distance, sparse flag, input
    /// delay and player count symbolic: accepted iff check_distance < max_prediction_window and sparse saving is
    /// off, rejected with InvalidRequest otherwise; an accepted session reports the configured values.
    fn synctest(w: usize) {
        let cd: usize = kani::any();
        kani::assume(cd <= w + 2);
        let sparse: bool = kani::any();
        let delay: usize = kani::any();
        kani::assume(delay <= 2);
        let one_player: bool = kani::any();
        let mut b = SessionBuilder::<CfgRL>::new();
        if one_player {
            b = b.with_num_players(1).unwrap_or_else(|_| SessionBuilder::new());
        }
        let b = b.with_max_prediction_window(w).with_check_distance(cd).with_sparse_saving_mode(sparse).with_input_delay(delay);
        match b.start_synctest_session() {
            Ok(s) => {
                assert!(cd < w && !sparse, "C13: invalid sync-test configuration accepted");
                assert!(s.check_distance() == cd && s.max_prediction() == w, "configured values reported");
                assert!(s.num_players() == if one_player { 1 } else { 2 });
                core::mem::forget(s);
            }
            Err(GgrsError::InvalidRequest { .. }) => assert!(cd >= w || sparse, "C13: valid configuration rejected"),
            Err(_) => assert!(false, "documented error kind"),
        }
        kani::cover!(cd == w && !sparse, "check distance equal to the window");
        kani::cover!(w == 0 || (cd + 1 == w && !sparse), "largest valid check distance");
    }
    macro_rules! synctest_case {
        ($name:ident, $w:expr) => {
            /// start_synctest_session accepted iff check_distance < window and not sparse (instance: window; check
            /// distance 0..window+2, sparse flag, input delay 0..2, 1 or 2 players symbolic)
            #[kani::proof]
            #[kani::unwind(10)]
            #[kani::stub(alloc::fmt::format, stub_format)]
            fn $name() {
                synctest($w);
            }
        };
    }
    synctest_case!(b_synctest_w0, 0);
    synctest_case!(b_synctest_w1, 1);
    synctest_case!(b_synctest_w2, 2);
    synctest_case!(b_synctest_w3, 3);
    synctest_case!(b_synctest_w8, 8);

    /// The scalar setters reject exactly fps 0, max_frames_behind 0 or >= the spectator buffer size, catchup_speed 0
    /// (any usize), with InvalidRequest; accepted values are stored.
    #[kani::proof]
    #[kani::unwind(10)]
    #[kani::stub(alloc::fmt::format, stub_format)]
    fn b_scalar_setters() {
        let fps: usize = kani::any();
        match SessionBuilder::<CfgRL>::new().with_fps(fps) {
            Ok(b) => {
                assert!(fps != 0 && b.fps == fps);
                core::mem::forget(b);
            }
            Err(GgrsError::InvalidRequest { .. }) => assert!(fps == 0),
            Err(_) => assert!(false),
        }
        let mfb: usize = kani::any();
        match SessionBuilder::<CfgRL>::new().with_max_frames_behind(mfb) {
            Ok(b) => {
                assert!(mfb >= 1 && mfb < SPECTATOR_BUFFER_SIZE && b.max_frames_behind == mfb);
                core::mem::forget(b);
            }
            Err(GgrsError::InvalidRequest { .. }) => assert!(mfb == 0 || mfb >= SPECTATOR_BUFFER_SIZE),
            Err(_) => assert!(false),
        }
        let cu: usize = kani::any();
        match SessionBuilder::<CfgRL>::new().with_catchup_speed(cu) {
            Ok(b) => {
                assert!(cu != 0 && b.catchup_speed == cu);
                core::mem::forget(b);
            }
            Err(GgrsError::InvalidRequest { .. }) => assert!(cu == 0),
            Err(_) => assert!(false),
        }
        kani::cover!(mfb + 1 == SPECTATOR_BUFFER_SIZE, "largest accepted max_frames_behind");
    }
}
