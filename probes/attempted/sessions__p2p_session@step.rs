#[cfg(kani)]
pub(crate) mod verif_ps {
    //! P-STEP — one whole `advance_frame` tick of the real `P2PSession` from mid-run states whose
    //! frame positions are concrete per instance (current frame, newest remote input, confirmed frame,
    //! prediction base, first incorrect frame; the instances enumerate every combination the session
    //! invariant allows at the stated base frame) and whose input values, predictions and game states
    //! are symbolic. Two players (0 local, 1 remote), rollback mode, dense saving, delay 0, no
    //! endpoint objects. The tick's request list is executed by an oracle game: C02 (executable,
    //! frame-consistent, loads return the state of the current timeline), C03 (status truthful),
    //! C04 (speculation bound), C01 kernel (every known misprediction repaired, states = replay of
    //! the inputs used) and the invariant of the post-state.
    use super::verif_p::mk_session_noep;
    use super::*;
    use crate::input_queue::verif_q as vq;
    use crate::sync_layer::verif_s as vs;
    use crate::verif_common::{step, stub_format, CfgDef, CfgRL};
    use crate::InputPredictor;

    const N: usize = vq::RING;

    /// pbase == -2 encodes "not predicting"
    pub(crate) fn step_case<T: Config<Input = u8, State = u32, Address = u8>, P: InputPredictor<u8>>(
        w: usize,
        c: Frame,
        stalled: bool,
        la1: Frame,
        lc: Frame,
        pbase: Frame,
        fi: Frame,
    ) {
        let predicting = pbase != -2;
        let la0 = if stalled { c } else { c - 1 };
        let keep = if lc >= 1 { lc - 1 } else { 0 };
        let mut s = mk_session_noep::<T>(w, false, 0, DesyncDetection::Off);
        // ---- queues
        let v0: [u8; N] = kani::any();
        let mut v1: [u8; N] = kani::any();
        let pv: u8 = kani::any();
        if predicting {
            // frames handed out as predictions that have arrived since: equal to the prediction up to
            // the first incorrect one, which differs
            let mut g = if pbase + 1 > keep { pbase + 1 } else { keep };
            while g <= la1 {
                if fi == NULL_FRAME || g < fi {
                    v1[g as usize % N] = pv;
                } else if g == fi {
                    kani::assume(v1[g as usize % N] != pv);
                }
                g += 1;
            }
            // the prediction itself is the predictor applied to the input it was based on
            if pbase == NULL_FRAME {
                kani::assume(pv == 0);
            } else if pbase >= keep {
                kani::assume(pv == P::predict(v1[pbase as usize % N]));
            } else {
                kani::assume(pv == P::predict(pv)); // a value the predictor can produce (both shipped predictors are idempotent)
            }
        }
        let q0 = vq::build::<T>(la0, keep, c - 1, &v0, None, NULL_FRAME);
        let q1 = vq::build::<T>(la1, keep, c - 1, &v1, if predicting { Some(pv) } else { None }, fi);
        assert!(vq::holds(&q0, NULL_FRAME), "instance: local queue satisfies the queue invariant");
        assert!(vq::holds(&q1, if predicting { pbase } else { NULL_FRAME }), "instance: remote queue satisfies the queue invariant");
        s.local_connect_status[0].last_frame = la0;
        s.local_connect_status[1].last_frame = la1;
        vs::install(&mut s.sync_layer, c, lc, la0, q0, q1);
        // ---- saved states and the game's own state: chain from the oldest frame still open to rollback
        let ncell = w + 1;
        let mut fl = c - w as Frame;
        if lc > fl {
            fl = lc;
        }
        if fl < 0 {
            fl = 0;
        }
        let used1 = |f: Frame, v1: &[u8; N]| -> u8 {
            if predicting && f > pbase {
                pv
            } else {
                v1[f as usize % N]
            }
        };
        let mut h: u32 = kani::any();
        let mut f = fl;
        while f < c {
            vs::cell_save(&s.sync_layer, f as usize % ncell, f, h);
            h = step(h, &[v0[f as usize % N], used1(f, &v1)]);
            f += 1;
        }
        if stalled {
            vs::cell_save(&s.sync_layer, c as usize % ncell, c, h);
        }
        let game_state0 = h;

        // ---- the tick
        let inp: u8 = kani::any();
        if s.add_local_input(0, inp).is_err() {
            assert!(false, "local handle rejected");
        }
        let reqs = match s.advance_frame_after_poll() {
            Ok(r) => r,
            Err(_) => {
                assert!(false, "advance_frame failed in a valid state");
                Vec::new()
            }
        };
        // ---- oracle game
        let mut gf = c;
        let mut st = game_state0;
        let mut n_adv = 0usize;
        let mut loaded = NULL_FRAME;
        let mut saved_current = false;
        let nreq = reqs.len();
        assert!(nreq <= 2 * w + 4);
        let mut ri = 0;
        while ri < nreq {
            match &reqs[ri] {
                GgrsRequest::SaveGameState { cell, frame } => {
                    let frame = *frame;
                    assert!(frame == gf, "C02: save names the frame the game is at");
                    cell.save(frame, Some(st), Some(st as u128));
                    if frame == c {
                        saved_current = true;
                    }
                }
                GgrsRequest::LoadGameState { cell, frame } => {
                    let frame = *frame;
                    assert!(loaded == NULL_FRAME && n_adv == 0, "C02: at most one load, before any advance");
                    assert!(frame < gf && frame >= gf - w as Frame, "C02/C04: load an earlier frame inside the window");
                    assert!(frame >= fl, "never behind the confirmed frame");
                    assert!(cell.frame() == frame, "C02: the cell still holds that frame");
                    match cell.load() {
                        Some(x) => st = x,
                        None => assert!(false, "C02: cell empty"),
                    }
                    gf = frame;
                    loaded = frame;
                }
                GgrsRequest::AdvanceFrame { inputs } => {
                    assert!(inputs.len() == 2);
                    let f = gf;
                    let (a0, s0) = inputs[0];
                    let (a1, s1) = inputs[1];
                    assert!(s0 == InputStatus::Confirmed, "C03: local inputs are always Confirmed");
                    let want0 = if f == c && !stalled { inp } else { v0[f as usize % N] };
                    assert!(a0 == want0, "C01/C03: local input is the submitted one");
                    if f <= la1 {
                        assert!(s1 == InputStatus::Confirmed, "C03: a received input is handed out as Confirmed");
                        assert!(a1 == v1[f as usize % N], "C03: Confirmed carries the real input");
                    } else {
                        assert!(s1 == InputStatus::Predicted, "C03: a missing input is handed out as Predicted");
                        let want = if la1 == NULL_FRAME { 0 } else { P::predict(v1[la1 as usize % N]) };
                        assert!(a1 == want, "C03: prediction = predictor(newest received input)");
                    }
                    if f == c {
                        let confirmed = if la1 < c { la1 } else { c };
                        assert!(c - confirmed <= w as Frame, "C04: a new frame is never more than the window beyond the confirmed frame");
                    }
                    st = step(st, &[a0, a1]);
                    gf = f + 1;
                    n_adv += 1;
                }
            }
            ri += 1;
        }
        core::mem::forget(reqs);
        let c2 = s.sync_layer.current_frame();
        assert!(gf == c2, "C02: game frame == current_frame() after the list");
        assert!(c2 == c || c2 == c + 1, "C02: at most one new frame");
        assert!(saved_current, "C02: the frame the call started at is saved (any frame still open to rollback has a saved state)");
        // ---- expected reaction
        let mismatch = fi != NULL_FRAME;
        if mismatch {
            assert!(loaded == fi, "C01: rollback to the first frame simulated with a wrong input");
        } else {
            assert!(loaded == NULL_FRAME, "no rollback without a misprediction");
        }
        let q1 = vs::queue(&s.sync_layer, 1);
        assert!(vq::fi(q1) == NULL_FRAME, "C01: every known misprediction is repaired by this call");
        // C04 gate: advance iff the frame is within the window of the (new) confirmed frame
        let conf = if la1 < la0 { la1 } else { la0 };
        let new_lc = if conf < c { conf } else { c };
        let ahead = if new_lc == NULL_FRAME { c } else { c - new_lc };
        assert!((c2 == c + 1) == (ahead < w as Frame), "C04: stall exactly at the prediction threshold");
        assert!(vs::last_confirmed(&s.sync_layer) == new_lc);
        // ---- post-state: queues, statuses, cells and game state are again in the invariant shape
        let q0 = vs::queue(&s.sync_layer, 0);
        assert!(vq::la(q0) == c && vq::lr(q0) == c2 - 1 && !vq::predicting(q0));
        assert!(vq::holds(q0, NULL_FRAME));
        assert!(vq::la(q1) == la1 && vq::lr(q1) == c2 - 1);
        let new_pbase = if vq::predicting(q1) { if loaded != NULL_FRAME || !predicting { la1 } else { pbase } } else { NULL_FRAME };
        assert!(vq::holds(q1, new_pbase));
        assert!(vq::predicting(q1) == (c2 - 1 > la1), "predicting iff a simulated frame lies beyond the inputs");
        assert!(s.local_connect_status[0].last_frame == c && s.local_connect_status[1].last_frame == la1);
        assert!(s.disconnect_frame == NULL_FRAME);
        let keep2 = if new_lc >= 1 { new_lc - 1 } else { 0 };
        assert!(vq::tail_frame(q0) == keep2);
        if la1 != NULL_FRAME {
            assert!(vq::tail_frame(q1) == keep2);
        }
        assert!(s.sync_layer.last_saved_frame() == c);
        // cells: every frame from the new floor to c2-1 is in its cell and the chain of states is the
        // replay of the inputs now in force (real ones where received, the prediction elsewhere)
        let mut fl2 = c2 - w as Frame;
        if new_lc > fl2 {
            fl2 = new_lc;
        }
        if fl2 < 0 {
            fl2 = 0;
        }
        let pv2 = if vq::predicting(q1) { vq::pred_input(q1) } else { 0 };
        let mut f = fl2;
        while f < c2 {
            let i = f as usize % ncell;
            assert!(vs::cell_frame(&s.sync_layer, i) == f, "C02: frames still open to rollback keep their saved state");
            let here = match vs::cell_data(&s.sync_layer, i) {
                Some(x) => x,
                None => {
                    assert!(false);
                    0
                }
            };
            let l = if f == c && !stalled { inp } else { v0[f as usize % N] };
            let r = if f <= la1 { v1[f as usize % N] } else { pv2 };
            let next = step(here, &[l, r]);
            if f + 1 < c2 {
                assert!(vs::cell_data(&s.sync_layer, (f + 1) as usize % ncell) == Some(next), "C01/C02: saved states = replay of the inputs in force");
            } else {
                assert!(st == next, "C01: the game's state = replay of the inputs in force");
            }
            f += 1;
        }
        kani::cover!(true, "tick completed");
        core::mem::forget(s);
    }


    macro_rules! ps_case {
        ($name:ident, $cfg:ty, $pred:ty, $w:expr, $c:expr, $stalled:expr, $la1:expr, $lc:expr, $pbase:expr, $fi:expr) => {
            /// (instance: window, current frame, stalled?, newest remote frame, confirmed frame, prediction
            /// base (-2 = not predicting), first incorrect frame; all values symbolic)
            #[kani::proof]
            #[kani::unwind(4)]
            #[kani::stub(alloc::fmt::format, stub_format)]
            fn $name() {
                step_case::<$cfg, $pred>($w, $c, $stalled, $la1, $lc, $pbase, $fi);
            }
        };
    }
    // ---- quick tier: key shapes (window 2, PredictRepeatLast; two of them also with PredictDefault)
    ps_case!(ps_rl_w2_c9_go_r7_k7_p7_fm1, CfgRL, crate::PredictRepeatLast, 2, 9, false, 7, 7, 7, -1); // predict1
    ps_case!(ps_rl_w2_c9_go_r8_k7_p6_f8, CfgRL, crate::PredictRepeatLast, 2, 9, false, 8, 7, 6, 8); // rollback1
    ps_case!(ps_rl_w2_c9_go_r9_k8_pm2_fm1, CfgRL, crate::PredictRepeatLast, 2, 9, false, 9, 8, -2, -1); // steady
    ps_case!(ps_rl_w2_c9_go_r10_k8_pm2_fm1, CfgRL, crate::PredictRepeatLast, 2, 9, false, 10, 8, -2, -1); // remote_ahead
    ps_case!(ps_rl_w2_c9_st_r7_k7_p7_fm1, CfgRL, crate::PredictRepeatLast, 2, 9, true, 7, 7, 7, -1); // stalled
    ps_case!(ps_rl_w2_c9_st_r8_k7_p7_f8, CfgRL, crate::PredictRepeatLast, 2, 9, true, 8, 7, 7, 8); // rollback1_after_stall
    ps_case!(ps_df_w2_c9_go_r7_k7_p7_fm1, CfgDef, crate::PredictDefault, 2, 9, false, 7, 7, 7, -1); // predict1
    ps_case!(ps_df_w2_c9_go_r8_k7_p6_f8, CfgDef, crate::PredictDefault, 2, 9, false, 8, 7, 6, 8); // rollback1
}
