#[cfg(kani)]
mod verif_ps_more {
    //! P-STEP (thorough tier): every remaining shape the session invariant allows for prediction
    //! windows 1 and 2 at base frame 9 (see sessions__p2p_session@step.rs for the harness body).
    use super::verif_ps::step_case;
    use crate::verif_common::{stub_format, CfgRL};

    macro_rules! ps_case {
        ($name:ident, $cfg:ty, $pred:ty, $w:expr, $c:expr, $stalled:expr, $la1:expr, $lc:expr, $pbase:expr, $fi:expr) => {
            /// (instance: window, current frame, stalled?, newest remote frame, confirmed frame, prediction
            /// base (-2 = not predicting), first incorrect frame; all values symbolic)
            #[kani::proof]
            #[kani::unwind(4)]
            #[kani::stub(alloc::fmt::format, stub_format)]
            fn $name() {
                step_case::<$cfg, $pred>($w, $c, $stalled, $la1, $lc, $pbase, $fi);
            }
        };
    }
    // ---- thorough tier: every shape the invariant allows for window 1 and 2 at base frame 9
    ps_case!(ps_rl_w1_c9_go_r8_k8_pm2_fm1, CfgRL, crate::PredictRepeatLast, 1, 9, false, 8, 8, -2, -1);
    ps_case!(ps_rl_w1_c9_go_r9_k8_pm2_fm1, CfgRL, crate::PredictRepeatLast, 1, 9, false, 9, 8, -2, -1);
    ps_case!(ps_rl_w1_c9_go_r9_k8_p6_f9, CfgRL, crate::PredictRepeatLast, 1, 9, false, 9, 8, 6, 9);
    ps_case!(ps_rl_w1_c9_go_r9_k8_p7_f9, CfgRL, crate::PredictRepeatLast, 1, 9, false, 9, 8, 7, 9);
    ps_case!(ps_rl_w1_c9_go_r10_k8_pm2_fm1, CfgRL, crate::PredictRepeatLast, 1, 9, false, 10, 8, -2, -1);
    ps_case!(ps_rl_w1_c9_go_r10_k8_p6_f9, CfgRL, crate::PredictRepeatLast, 1, 9, false, 10, 8, 6, 9);
    ps_case!(ps_rl_w1_c9_go_r10_k8_p6_f10, CfgRL, crate::PredictRepeatLast, 1, 9, false, 10, 8, 6, 10);
    ps_case!(ps_rl_w1_c9_go_r10_k8_p7_f9, CfgRL, crate::PredictRepeatLast, 1, 9, false, 10, 8, 7, 9);
    ps_case!(ps_rl_w1_c9_go_r10_k8_p7_f10, CfgRL, crate::PredictRepeatLast, 1, 9, false, 10, 8, 7, 10);
    ps_case!(ps_rl_w1_c9_st_r8_k8_pm2_fm1, CfgRL, crate::PredictRepeatLast, 1, 9, true, 8, 8, -2, -1);
    ps_case!(ps_rl_w1_c9_st_r9_k8_pm2_fm1, CfgRL, crate::PredictRepeatLast, 1, 9, true, 9, 8, -2, -1);
    ps_case!(ps_rl_w1_c9_st_r9_k8_p6_f9, CfgRL, crate::PredictRepeatLast, 1, 9, true, 9, 8, 6, 9);
    ps_case!(ps_rl_w1_c9_st_r9_k8_p7_f9, CfgRL, crate::PredictRepeatLast, 1, 9, true, 9, 8, 7, 9);
    ps_case!(ps_rl_w1_c9_st_r10_k8_pm2_fm1, CfgRL, crate::PredictRepeatLast, 1, 9, true, 10, 8, -2, -1);
    ps_case!(ps_rl_w1_c9_st_r10_k8_p6_f9, CfgRL, crate::PredictRepeatLast, 1, 9, true, 10, 8, 6, 9);
    ps_case!(ps_rl_w1_c9_st_r10_k8_p6_f10, CfgRL, crate::PredictRepeatLast, 1, 9, true, 10, 8, 6, 10);
    ps_case!(ps_rl_w1_c9_st_r10_k8_p7_f9, CfgRL, crate::PredictRepeatLast, 1, 9, true, 10, 8, 7, 9);
    ps_case!(ps_rl_w1_c9_st_r10_k8_p7_f10, CfgRL, crate::PredictRepeatLast, 1, 9, true, 10, 8, 7, 10);
    ps_case!(ps_rl_w2_c9_go_r7_k7_p5_fm1, CfgRL, crate::PredictRepeatLast, 2, 9, false, 7, 7, 5, -1);
    ps_case!(ps_rl_w2_c9_go_r7_k7_p6_fm1, CfgRL, crate::PredictRepeatLast, 2, 9, false, 7, 7, 6, -1);
    ps_case!(ps_rl_w2_c9_go_r8_k7_pm2_fm1, CfgRL, crate::PredictRepeatLast, 2, 9, false, 8, 7, -2, -1);
    ps_case!(ps_rl_w2_c9_go_r8_k7_p5_f8, CfgRL, crate::PredictRepeatLast, 2, 9, false, 8, 7, 5, 8);
    ps_case!(ps_rl_w2_c9_go_r8_k7_p7_f8, CfgRL, crate::PredictRepeatLast, 2, 9, false, 8, 7, 7, 8);
    ps_case!(ps_rl_w2_c9_go_r8_k8_pm2_fm1, CfgRL, crate::PredictRepeatLast, 2, 9, false, 8, 8, -2, -1);
    ps_case!(ps_rl_w2_c9_go_r9_k7_pm2_fm1, CfgRL, crate::PredictRepeatLast, 2, 9, false, 9, 7, -2, -1);
    ps_case!(ps_rl_w2_c9_go_r9_k7_p5_f8, CfgRL, crate::PredictRepeatLast, 2, 9, false, 9, 7, 5, 8);
    ps_case!(ps_rl_w2_c9_go_r9_k7_p5_f9, CfgRL, crate::PredictRepeatLast, 2, 9, false, 9, 7, 5, 9);
    ps_case!(ps_rl_w2_c9_go_r9_k7_p6_f8, CfgRL, crate::PredictRepeatLast, 2, 9, false, 9, 7, 6, 8);
    ps_case!(ps_rl_w2_c9_go_r9_k7_p6_f9, CfgRL, crate::PredictRepeatLast, 2, 9, false, 9, 7, 6, 9);
    ps_case!(ps_rl_w2_c9_go_r9_k7_p7_f8, CfgRL, crate::PredictRepeatLast, 2, 9, false, 9, 7, 7, 8);
    ps_case!(ps_rl_w2_c9_go_r9_k7_p7_f9, CfgRL, crate::PredictRepeatLast, 2, 9, false, 9, 7, 7, 9);
    ps_case!(ps_rl_w2_c9_go_r9_k8_p6_f9, CfgRL, crate::PredictRepeatLast, 2, 9, false, 9, 8, 6, 9);
    ps_case!(ps_rl_w2_c9_go_r9_k8_p7_f9, CfgRL, crate::PredictRepeatLast, 2, 9, false, 9, 8, 7, 9);
    ps_case!(ps_rl_w2_c9_go_r10_k7_pm2_fm1, CfgRL, crate::PredictRepeatLast, 2, 9, false, 10, 7, -2, -1);
    ps_case!(ps_rl_w2_c9_go_r10_k7_p5_f8, CfgRL, crate::PredictRepeatLast, 2, 9, false, 10, 7, 5, 8);
    ps_case!(ps_rl_w2_c9_go_r10_k7_p5_f9, CfgRL, crate::PredictRepeatLast, 2, 9, false, 10, 7, 5, 9);
    ps_case!(ps_rl_w2_c9_go_r10_k7_p5_f10, CfgRL, crate::PredictRepeatLast, 2, 9, false, 10, 7, 5, 10);
    ps_case!(ps_rl_w2_c9_go_r10_k7_p6_f8, CfgRL, crate::PredictRepeatLast, 2, 9, false, 10, 7, 6, 8);
    ps_case!(ps_rl_w2_c9_go_r10_k7_p6_f9, CfgRL, crate::PredictRepeatLast, 2, 9, false, 10, 7, 6, 9);
    ps_case!(ps_rl_w2_c9_go_r10_k7_p6_f10, CfgRL, crate::PredictRepeatLast, 2, 9, false, 10, 7, 6, 10);
    ps_case!(ps_rl_w2_c9_go_r10_k7_p7_f8, CfgRL, crate::PredictRepeatLast, 2, 9, false, 10, 7, 7, 8);
    ps_case!(ps_rl_w2_c9_go_r10_k7_p7_f9, CfgRL, crate::PredictRepeatLast, 2, 9, false, 10, 7, 7, 9);
    ps_case!(ps_rl_w2_c9_go_r10_k7_p7_f10, CfgRL, crate::PredictRepeatLast, 2, 9, false, 10, 7, 7, 10);
    ps_case!(ps_rl_w2_c9_go_r10_k8_p6_f9, CfgRL, crate::PredictRepeatLast, 2, 9, false, 10, 8, 6, 9);
    ps_case!(ps_rl_w2_c9_go_r10_k8_p6_f10, CfgRL, crate::PredictRepeatLast, 2, 9, false, 10, 8, 6, 10);
    ps_case!(ps_rl_w2_c9_go_r10_k8_p7_f9, CfgRL, crate::PredictRepeatLast, 2, 9, false, 10, 8, 7, 9);
    ps_case!(ps_rl_w2_c9_go_r10_k8_p7_f10, CfgRL, crate::PredictRepeatLast, 2, 9, false, 10, 8, 7, 10);
    ps_case!(ps_rl_w2_c9_st_r7_k7_p5_fm1, CfgRL, crate::PredictRepeatLast, 2, 9, true, 7, 7, 5, -1);
    ps_case!(ps_rl_w2_c9_st_r7_k7_p6_fm1, CfgRL, crate::PredictRepeatLast, 2, 9, true, 7, 7, 6, -1);
    ps_case!(ps_rl_w2_c9_st_r8_k7_pm2_fm1, CfgRL, crate::PredictRepeatLast, 2, 9, true, 8, 7, -2, -1);
    ps_case!(ps_rl_w2_c9_st_r8_k7_p5_f8, CfgRL, crate::PredictRepeatLast, 2, 9, true, 8, 7, 5, 8);
    ps_case!(ps_rl_w2_c9_st_r8_k7_p6_f8, CfgRL, crate::PredictRepeatLast, 2, 9, true, 8, 7, 6, 8);
    ps_case!(ps_rl_w2_c9_st_r9_k7_pm2_fm1, CfgRL, crate::PredictRepeatLast, 2, 9, true, 9, 7, -2, -1);
    ps_case!(ps_rl_w2_c9_st_r9_k7_p5_f8, CfgRL, crate::PredictRepeatLast, 2, 9, true, 9, 7, 5, 8);
    ps_case!(ps_rl_w2_c9_st_r9_k7_p5_f9, CfgRL, crate::PredictRepeatLast, 2, 9, true, 9, 7, 5, 9);
    ps_case!(ps_rl_w2_c9_st_r9_k7_p6_f8, CfgRL, crate::PredictRepeatLast, 2, 9, true, 9, 7, 6, 8);
    ps_case!(ps_rl_w2_c9_st_r9_k7_p6_f9, CfgRL, crate::PredictRepeatLast, 2, 9, true, 9, 7, 6, 9);
    ps_case!(ps_rl_w2_c9_st_r9_k7_p7_f8, CfgRL, crate::PredictRepeatLast, 2, 9, true, 9, 7, 7, 8);
    ps_case!(ps_rl_w2_c9_st_r9_k7_p7_f9, CfgRL, crate::PredictRepeatLast, 2, 9, true, 9, 7, 7, 9);
    ps_case!(ps_rl_w2_c9_st_r10_k7_pm2_fm1, CfgRL, crate::PredictRepeatLast, 2, 9, true, 10, 7, -2, -1);
    ps_case!(ps_rl_w2_c9_st_r10_k7_p5_f8, CfgRL, crate::PredictRepeatLast, 2, 9, true, 10, 7, 5, 8);
    ps_case!(ps_rl_w2_c9_st_r10_k7_p5_f9, CfgRL, crate::PredictRepeatLast, 2, 9, true, 10, 7, 5, 9);
    ps_case!(ps_rl_w2_c9_st_r10_k7_p5_f10, CfgRL, crate::PredictRepeatLast, 2, 9, true, 10, 7, 5, 10);
    ps_case!(ps_rl_w2_c9_st_r10_k7_p6_f8, CfgRL, crate::PredictRepeatLast, 2, 9, true, 10, 7, 6, 8);
    ps_case!(ps_rl_w2_c9_st_r10_k7_p6_f9, CfgRL, crate::PredictRepeatLast, 2, 9, true, 10, 7, 6, 9);
    ps_case!(ps_rl_w2_c9_st_r10_k7_p6_f10, CfgRL, crate::PredictRepeatLast, 2, 9, true, 10, 7, 6, 10);
    ps_case!(ps_rl_w2_c9_st_r10_k7_p7_f8, CfgRL, crate::PredictRepeatLast, 2, 9, true, 10, 7, 7, 8);
    ps_case!(ps_rl_w2_c9_st_r10_k7_p7_f9, CfgRL, crate::PredictRepeatLast, 2, 9, true, 10, 7, 7, 9);
    ps_case!(ps_rl_w2_c9_st_r10_k7_p7_f10, CfgRL, crate::PredictRepeatLast, 2, 9, true, 10, 7, 7, 10);
}
