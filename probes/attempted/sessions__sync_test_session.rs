#[cfg(kani)]
mod verif_t {
    //! T — `SyncTestSession` bounded runs from the real initial state (C13, C02): request-list
    //! contract, every input Confirmed and delayed as configured, no false MismatchedChecksum for a
    //! deterministic game, a non-deterministic step is flagged within check_distance + 2 frames.
    use super::*;
    use crate::verif_common::{step, stub_format, CfgRL};
    use crate::{GgrsError, InputStatus, NULL_FRAME};

    const MAXF: usize = 10;

    struct Game {
        frame: Frame,
        state: u32,
        /// executions of "advance frame f" so far (to place the nondeterministic step)
        execs: [u8; MAXF],
        glitch_frame: Frame,
        glitch_exec: u8,
    }

    fn run(players: usize, w: usize, cd: usize, delay: usize, ticks: usize, glitch: Option<(Frame, u8)>) -> Option<(Frame, Frame)> {
        let mut s = SyncTestSession::<CfgRL>::new(players, w, cd, delay);
        let mut g = Game { frame: 0, state: 1, execs: [0; MAXF], glitch_frame: NULL_FRAME, glitch_exec: 0 };
        if let Some((f, e)) = glitch {
            g.glitch_frame = f;
            g.glitch_exec = e;
        }
        let mut submitted = [[0u8; 2]; MAXF];
        let mut t = 0;
        while t < ticks {
            let cur = s.current_frame();
            let mut p = 0;
            while p < players {
                let v: u8 = kani::any();
                submitted[cur as usize][p] = v;
                if s.add_local_input(p, v).is_err() {
                    assert!(false, "valid handle rejected");
                }
                p += 1;
            }
            match s.advance_frame() {
                Err(GgrsError::MismatchedChecksum { current_frame, mismatched_frames }) => {
                    let first = mismatched_frames[0];
                    core::mem::forget(mismatched_frames);
                    core::mem::forget(s);
                    return Some((current_frame, first));
                }
                Err(_) => {
                    assert!(false, "unexpected error");
                }
                Ok(reqs) => {
                    let before = g.frame;
                    for r in reqs {
                        match r {
                            GgrsRequest::SaveGameState { cell, frame } => {
                                assert!(cd > 0, "check distance 0 never saves");
                                assert!(frame == g.frame, "C02: save names the frame the game is at");
                                cell.save(frame, Some(g.state), Some(g.state as u128));
                                core::mem::forget(cell);
                            }
                            GgrsRequest::LoadGameState { cell, frame } => {
                                assert!(frame < g.frame && frame >= g.frame - w as Frame, "C02/C04: load earlier, within the window");
                                assert!(cell.frame() == frame, "C02: cell holds the requested frame");
                                match cell.load() {
                                    Some(st) => g.state = st,
                                    None => assert!(false, "cell empty"),
                                }
                                g.frame = frame;
                                core::mem::forget(cell);
                            }
                            GgrsRequest::AdvanceFrame { inputs } => {
                                assert!(inputs.len() == players);
                                let f = g.frame;
                                let mut vals = [0u8; 2];
                                let mut p = 0;
                                while p < players {
                                    let (v, st) = inputs[p];
                                    assert!(st == InputStatus::Confirmed, "C13: every input Confirmed");
                                    let want = if (f as usize) < delay { 0 } else { submitted[f as usize - delay][p] };
                                    assert!(v == want, "C13: input = value submitted `delay` frames earlier");
                                    vals[p] = v;
                                    p += 1;
                                }
                                g.execs[f as usize] += 1;
                                let mut ns = step(g.state, &vals[..players]);
                                if f == g.glitch_frame && g.execs[f as usize] == g.glitch_exec {
                                    ns ^= 0x5555; // the game's one nondeterministic step
                                }
                                g.state = ns;
                                g.frame = f + 1;
                                core::mem::forget(inputs);
                            }
                        }
                    }
                    assert!(g.frame == s.current_frame(), "C02: game frame == current_frame()");
                    assert!(g.frame == before + 1, "a sync test advances one frame per call");
                }
            }
            t += 1;
        }
        core::mem::forget(s);
        None
    }

    macro_rules! det {
        ($name:ident, $players:expr, $w:expr, $cd:expr, $delay:expr, $ticks:expr) => {
            /// Deterministic game, all inputs symbolic: never MismatchedChecksum; request contract holds.
            #[kani::proof]
            #[kani::unwind(5)]
            #[kani::stub(alloc::fmt::format, stub_format)]
            fn $name() {
                let r = run($players, $w, $cd, $delay, $ticks, None);
                assert!(r.is_none(), "C13: deterministic game flagged");
                kani::cover!(true, "run completed");
            }
        };
    }
    det!(t_det_p1_w3_cd2_d0, 1, 3, 2, 0, 5);
    det!(t_det_p2_w3_cd2_d1, 2, 3, 2, 1, 5);
    det!(t_det_p1_w2_cd0_d0, 1, 2, 0, 0, 3);
    det!(t_det_p1_w2_cd1_d2, 1, 2, 1, 2, 4);
    det!(t_det_p1_w4_cd3_d0, 1, 4, 3, 0, 6);

    macro_rules! nondet {
        ($name:ident, $w:expr, $cd:expr, $ticks:expr) => {
            /// A game whose result for one symbolic frame F differs in one symbolic execution of that
            /// frame (first run or any re-simulation): MismatchedChecksum is reported no later than
            /// the call at frame F + check_distance + 2 and names frame F+1 (the first saved state
            /// affected) as its first mismatched frame.
            #[kani::proof]
            #[kani::unwind(5)]
            #[kani::stub(alloc::fmt::format, stub_format)]
            fn $name() {
                let f: Frame = kani::any();
                kani::assume(f >= 0 && f <= 1);
                let e: u8 = kani::any();
                kani::assume(e >= 1 && e as usize <= $cd + 1);
                let r = run(1, $w, $cd, 0, $ticks, Some((f, e)));
                match r {
                    Some((at, first)) => {
                        assert!(at <= f + $cd + 2, "C13: reported within check_distance + 2 frames");
                        assert!(first == f + 1, "C13: names the first affected frame");
                    }
                    None => assert!(false, "C13: nondeterministic game not flagged"),
                }
                kani::cover!(e == 1, "glitch in the first simulation");
                kani::cover!(e == 2, "glitch in a re-simulation");
            }
        };
    }
    nondet!(t_nondet_w3_cd2, 3, 2, 6);
}
