// host-side spectator feed harness (send_confirmed_inputs_to_spectators with a recorder stub): produced spurious
// realloc/same_allocation failures under Kani that were not understood in time; not registered.
    // ------------------------------------------------------------------ host -> spectator feed (C06)

    static FEED_N: AtomicUsize = AtomicUsize::new(0);
    static FEED_F0: [AtomicI32; 4] = [AtomicI32::new(-9), AtomicI32::new(-9), AtomicI32::new(-9), AtomicI32::new(-9)];
    static FEED_F1: [AtomicI32; 4] = [AtomicI32::new(-9), AtomicI32::new(-9), AtomicI32::new(-9), AtomicI32::new(-9)];
    /// Recorder standing in for `UdpProtocol::send_input` on the spectator endpoint: notes, per call, the
    /// frame tag of player 0's and player 1's input (a blank input for a dropped player carries NULL_FRAME).
    fn stub_feed_send_input<T: Config>(
        _this: &mut crate::network::protocol::UdpProtocol<T>,
        inputs: &HashMap<PlayerHandle, PlayerInput<T::Input>>,
        _cs: &[ConnectionStatus],
    ) {
        let n = FEED_N.load(Ordering::Relaxed);
        assert!(n < 4);
        FEED_F0[n].store(match inputs.get(&0) { Some(pi) => pi.frame, None => -8 }, Ordering::Relaxed);
        FEED_F1[n].store(match inputs.get(&1) { Some(pi) => pi.frame, None => -8 }, Ordering::Relaxed);
        FEED_N.store(n + 1, Ordering::Relaxed);
    }

    macro_rules! spectator_feed {
        ($name:ident, $next:expr, $conf:expr, $dropped_at:expr) => {
            /// send_confirmed_inputs_to_spectators (endpoint's send_input replaced by a recorder): the
            /// frames next_spectator_frame ..= confirmed are handed to the spectator endpoint in order,
            /// each exactly once, every player's input tagged with that frame - a player disconnected as
            /// of an earlier frame is sent as a blank input -, the cursor moves to confirmed + 1, and a
            /// second call with the same confirmed frame sends nothing (never beyond what is confirmed).
            /// (instance: next frame to send, confirmed frame, frame after which player 1 is dropped or -9)
            #[kani::proof]
            #[kani::unwind(6)]
            #[kani::stub(crate::network::protocol::millis_since_epoch, stub_millis)]
            #[kani::stub(alloc::fmt::format, stub_format)]
            #[kani::stub(crate::network::protocol::UdpProtocol::send_input, stub_feed_send_input)]
            #[kani::stub(crate::network::protocol::UdpProtocol::send_all_messages, stub_send_all)]
            fn $name() {
                let mut reg = PlayerRegistry::<CfgRL> { handles: HashMap::new(), remotes: HashMap::new(), spectators: HashMap::new() };
                reg.handles.insert(0, PlayerType::Local);
                reg.handles.insert(1, PlayerType::Remote(9));
                reg.handles.insert(2, PlayerType::Spectator(7));
                reg.spectators.insert(7, vu::mk_ep::<CfgRL>(vec![2], 2, 2, 2, true));
                let mut s = P2PSession::<CfgRL>::new(2, 2, Box::new(NullSocket), reg, false, DesyncDetection::Off, 0, 60);
                let v0: [u8; crate::input_queue::verif_q::RING] = kani::any();
                let v1: [u8; crate::input_queue::verif_q::RING] = kani::any();
                let next: Frame = $next;
                let conf: Frame = $conf;
                vs::install(&mut s.sync_layer, conf + 1, next, conf, queue_with(conf + 1, next - 1, &v0), queue_with(conf, next - 1, &v1));
                s.next_spectator_frame = next;
                let cut: Frame = $dropped_at;
                if cut != -9 {
                    s.local_connect_status[1] = ConnectionStatus { disconnected: true, last_frame: cut };
                }
                FEED_N.store(0, Ordering::Relaxed);
                s.send_confirmed_inputs_to_spectators(conf);
                let n = (conf - next + 1) as usize;
                assert!(FEED_N.load(Ordering::Relaxed) == n, "C06: every confirmed frame once");
                let mut i = 0;
                while i < n {
                    let f = next + i as Frame;
                    assert!(FEED_F0[i].load(Ordering::Relaxed) == f, "C06: in order, no gap");
                    let want1 = if cut != -9 && cut < f { NULL_FRAME } else { f };
                    assert!(FEED_F1[i].load(Ordering::Relaxed) == want1, "C06: blank input exactly where the host treats the player as disconnected");
                    i += 1;
                }
                assert!(s.next_spectator_frame == conf + 1);
                s.send_confirmed_inputs_to_spectators(conf);
                assert!(FEED_N.load(Ordering::Relaxed) == n, "C06: nothing is sent twice or beyond the confirmed frame");
                kani::cover!(true, "reached");
                core::mem::forget(s);
            }
        };
    }
    spectator_feed!(pc_spectator_feed_three_frames, 5, 7, -9);
    spectator_feed!(pc_spectator_feed_player_dropped_midway, 5, 7, 6);
    spectator_feed!(pc_spectator_feed_nothing_new, 6, 5, -9);
