#[cfg(kani)]
pub(crate) mod verif_pi {
    //! P-IND — one whole `advance_frame` tick of the real `P2PSession` from ANY mid-run state that
    //! satisfies the session invariant `pinv` (C01-C04): two players (0 local, 1 remote), rollback
    //! mode, dense saving, delay 0, no endpoint objects (remote inputs have entered through
    //! `handle_event`, whose effect on the invariant is the subject of `pi_remote_input_step`).
    //! Pre-state: both input queues, the frame counters, the saved-state cells and the game's own
    //! state are symbolic, constrained only by `pinv`; the request list of the tick is executed by an
    //! oracle game; post: the C02/C03/C04 request contracts, the C01 kernel (no simulated frame
    //! whose real input is known keeps a wrong input) and `pinv` again.
    use super::verif_p::mk_session_noep;
    use super::*;
    use crate::input_queue::verif_q as vq;
    use crate::sync_layer::verif_s as vs;
    use crate::verif_common::{step, stub_format, CfgDef, CfgRL};
    use crate::InputPredictor;

    const MAXFRAME: Frame = 1 << 20;

    /// ghost: prediction base of the remote queue, and the game's state at frame `current`
    #[derive(Clone, Copy)]
    struct Ghost {
        pbase1: Frame,
        game_state: u32,
    }

    /// what the game used for the remote player when it last simulated frame f (f < current)
    fn used1<T: Config<Input = u8, State = u32>>(s: &P2PSession<T>, g: &Ghost, f: Frame) -> u8 {
        let q1 = vs::queue(&s.sync_layer, 1);
        if vq::predicting(q1) && f > g.pbase1 {
            vq::pred_input(q1)
        } else {
            vq::slot(q1, f).1
        }
    }

    /// first frame that can still be rolled back to
    fn floor<T: Config<Input = u8, State = u32>>(s: &P2PSession<T>, w: usize) -> Frame {
        let c = s.sync_layer.current_frame();
        let lc = vs::last_confirmed(&s.sync_layer);
        let mut f = c - w as Frame;
        if lc > f {
            f = lc;
        }
        if f < 0 {
            f = 0;
        }
        f
    }

    /// The session invariant between two ticks (after any number of remote inputs have arrived).
    fn pinv<T: Config<Input = u8, State = u32>>(s: &P2PSession<T>, g: &Ghost, w: usize) -> bool {
        let sl = &s.sync_layer;
        let c = sl.current_frame();
        let lc = vs::last_confirmed(sl);
        let q0 = vs::queue(sl, 0);
        let q1 = vs::queue(sl, 1);
        if !(c >= 0 && c < MAXFRAME) {
            return false;
        }
        // ---- local queue: delay 0, never predicting, holds the frames up to c-1 (c if the last tick stalled)
        let la0 = vq::la(q0);
        if !(vq::delay(q0) == 0 && !vq::predicting(q0) && vq::lu(q0) == la0) {
            return false;
        }
        if !(la0 == c - 1 || la0 == c) {
            return false;
        }
        if vq::lr(q0) != c - 1 {
            return false;
        }
        // ---- remote queue
        let la1 = vq::la(q1);
        if !(vq::delay(q1) == 0 && vq::lu(q1) == la1 && la1 <= c + 1) {
            return false;
        }
        if c == 0 {
            if vq::predicting(q1) || vq::lr(q1) != NULL_FRAME {
                return false;
            }
        } else {
            if vq::lr(q1) != c - 1 {
                return false;
            }
            if !vq::predicting(q1) && la1 < c - 1 {
                return false;
            }
            if vq::predicting(q1) && g.pbase1 >= c - 1 {
                return false; // a prediction exists only because some simulated frame lay beyond the inputs
            }
        }
        let fi1 = vq::fi(q1);
        if fi1 != NULL_FRAME && fi1 <= lc {
            return false;
        }
        // ---- connection status mirrors the queues
        if s.local_connect_status[0].last_frame != la0 || s.local_connect_status[1].last_frame != la1 {
            return false;
        }
        if s.local_connect_status[0].disconnected || s.local_connect_status[1].disconnected {
            return false;
        }
        if s.disconnect_frame != NULL_FRAME {
            return false;
        }
        // ---- confirmed frame / prediction gate
        if !(lc >= NULL_FRAME && lc <= c && lc <= la1 && lc <= la0) {
            return false;
        }
        if lc == NULL_FRAME {
            if c > w as Frame {
                return false;
            }
        } else if c - lc > w as Frame {
            return false;
        }
        // ---- queue windows still hold everything a rollback can ask for
        // (every tick discards up to confirmed-1, so the oldest stored frame is exactly max(0, confirmed-1);
        //  with confirmed >= current - window this also bounds the queue lengths by window + 4 <= ring)
        let keep = if lc >= 1 { lc - 1 } else { 0 };
        if la0 != NULL_FRAME && vq::tail_frame(q0) != keep {
            return false;
        }
        if la1 != NULL_FRAME && vq::tail_frame(q1) != keep {
            return false;
        }
        // ---- saved states: every frame from `floor` to c-1 is in its cell, and the chain of states
        //      is what the game computes from the inputs it last used
        let ncell = w + 1;
        let fl = floor(s, w);
        if sl.last_saved_frame() != (if la0 == c { c } else { c - 1 }) {
            return false;
        }
        let mut f = fl;
        while f < c {
            let i = f as usize % ncell;
            if vs::cell_frame(sl, i) != f {
                return false;
            }
            let here = match vs::cell_data(sl, i) {
                Some(x) => x,
                None => return false,
            };
            let next = step(here, &[vq::slot(q0, f).1, used1(s, g, f)]);
            if f + 1 < c {
                let j = (f + 1) as usize % ncell;
                if vs::cell_data(sl, j) != Some(next) {
                    return false;
                }
            } else if g.game_state != next {
                return false;
            }
            f += 1;
        }
        if la0 == c {
            // the stalled tick saved frame c as well
            let i = c as usize % ncell;
            if vs::cell_frame(sl, i) != c || vs::cell_data(sl, i) != Some(g.game_state) {
                return false;
            }
        }
        true
    }

    fn any_session<T: Config<Input = u8, State = u32, Address = u8>>(w: usize) -> (P2PSession<T>, Ghost) {
        let mut s = mk_session_noep::<T>(w, false, 0, DesyncDetection::Off);
        let (q0, _) = vq::any_valid::<T>();
        let (q1, pbase1) = vq::any_valid::<T>();
        let c: Frame = kani::any();
        let lc: Frame = kani::any();
        let ls: Frame = kani::any();
        s.local_connect_status[0].last_frame = vq::la(&q0);
        s.local_connect_status[1].last_frame = vq::la(&q1);
        vs::install(&mut s.sync_layer, c, lc, ls, q0, q1);
        let mut i = 0;
        while i < w + 1 {
            let fr: Frame = kani::any();
            if fr >= 0 {
                vs::cell_save(&s.sync_layer, i, fr, kani::any());
            }
            i += 1;
        }
        let g = Ghost { pbase1, game_state: kani::any() };
        (s, g)
    }

    fn tick_step<T: Config<Input = u8, State = u32, Address = u8>, P: InputPredictor<u8>>(w: usize) {
        let (mut s, mut g) = any_session::<T>(w);
        kani::assume(pinv(&s, &g, w));
        let c = s.sync_layer.current_frame();
        let la1 = vq::la(vs::queue(&s.sync_layer, 1));
        let la0 = vq::la(vs::queue(&s.sync_layer, 0));
        let fl0 = floor(&s, w);
        let pre_predicting = vq::predicting(vs::queue(&s.sync_layer, 1));
        let inp: u8 = kani::any();
        if s.add_local_input(0, inp).is_err() {
            assert!(false, "local handle rejected");
        }
        let reqs = match s.advance_frame_after_poll() {
            Ok(r) => r,
            Err(_) => {
                assert!(false, "advance_frame failed in a valid state");
                Vec::new()
            }
        };
        // ---- oracle game executes the list
        let mut gf = c;
        let mut st = g.game_state;
        let mut n_adv = 0usize;
        let mut loaded = NULL_FRAME;
        let mut last_was_save_of_current = false;
        let nreq = reqs.len();
        assert!(nreq <= 2 * w + 4);
        let mut ri = 0;
        while ri < nreq {
            // (inspected by reference and forgotten afterwards: moving GgrsRequest values out of the
            //  vector drags their Arc/Vec drop glue into the formula)
            match &reqs[ri] {
                GgrsRequest::SaveGameState { cell, frame } => {
                    let frame = *frame;
                    assert!(frame == gf, "C02: save names the frame the game is at");
                    cell.save(frame, Some(st), Some(st as u128));
                    last_was_save_of_current = frame == c;
                }
                GgrsRequest::LoadGameState { cell, frame } => {
                    let frame = *frame;
                    assert!(loaded == NULL_FRAME && n_adv == 0, "at most one load, first");
                    assert!(frame < gf && frame >= gf - w as Frame, "C02/C04: load an earlier frame inside the window");
                    assert!(frame >= fl0, "never behind the confirmed frame");
                    assert!(cell.frame() == frame, "C02: the cell still holds that frame");
                    match cell.load() {
                        Some(x) => st = x,
                        None => assert!(false, "C02: cell empty"),
                    }
                    gf = frame;
                    loaded = frame;
                }
                GgrsRequest::AdvanceFrame { inputs } => {
                    assert!(inputs.len() == 2);
                    let f = gf;
                    let (v0, s0) = inputs[0];
                    let (v1, s1) = inputs[1];
                    // C03: local input always Confirmed and the stored one
                    assert!(s0 == InputStatus::Confirmed);
                    let want0 = if f == c && la0 == c - 1 { inp } else { vq::slot(vs::queue(&s.sync_layer, 0), f).1 };
                    assert!(v0 == want0, "C01/C03: local input is the submitted one");
                    // C03: remote status truthful
                    if f <= la1 {
                        assert!(s1 == InputStatus::Confirmed, "C03: received input handed out as Confirmed");
                        assert!(v1 == vq::slot(vs::queue(&s.sync_layer, 1), f).1, "C03: Confirmed carries the real input");
                    } else {
                        assert!(s1 == InputStatus::Predicted, "C03: missing input handed out as Predicted");
                        let want = if la1 == NULL_FRAME { 0 } else { P::predict(vq::slot(vs::queue(&s.sync_layer, 1), la1).1) };
                        assert!(v1 == want, "C03: prediction = predictor(newest received input)");
                    }
                    if f == c {
                        // a NEW frame is simulated: C04 speculation bound w.r.t. the newest fully received frame
                        let confirmed = if la1 < c { la1 } else { c };
                        assert!(c - confirmed <= w as Frame, "C04: never more than the window beyond the confirmed frame");
                    }
                    st = step(st, &[v0, v1]);
                    gf = f + 1;
                    n_adv += 1;
                    last_was_save_of_current = false;
                }
            }
            ri += 1;
        }
        core::mem::forget(reqs);
        let c2 = s.sync_layer.current_frame();
        assert!(gf == c2, "C02: game frame == current_frame() after the list");
        assert!(c2 == c || c2 == c + 1, "C02: at most one new frame");
        if c2 == c {
            assert!(last_was_save_of_current || n_adv > 0 || loaded == NULL_FRAME, "stalled call");
        }
        g.game_state = st;
        // a rollback clears the prediction state; a fresh prediction is based on the newest input
        if loaded != NULL_FRAME || !pre_predicting {
            g.pbase1 = la1;
        }
        // ---- C01 kernel: after the tick no simulated frame whose real input has arrived keeps another input
        assert!(vq::fi(vs::queue(&s.sync_layer, 1)) == NULL_FRAME, "C01: every known misprediction was repaired");
        // ---- the invariant is re-established
        assert!(vq::holds(vs::queue(&s.sync_layer, 0), NULL_FRAME));
        assert!(vq::holds(vs::queue(&s.sync_layer, 1), g.pbase1));
        assert!(pinv(&s, &g, w), "session invariant preserved");
        kani::cover!(loaded != NULL_FRAME, "a rollback happened");
        kani::cover!(c2 == c, "stalled at the prediction threshold");
        kani::cover!(c2 == c + 1 && la1 < c, "a frame simulated on a prediction");
        kani::cover!(c > 100, "far into a session");
        core::mem::forget(s);
    }

    /// One advance_frame tick from any invariant state, prediction window 1, PredictRepeatLast.
    #[kani::proof]
    #[kani::unwind(5)]
    #[kani::stub(alloc::fmt::format, stub_format)]
    fn pi_tick_w1_rl() {
        tick_step::<CfgRL, crate::PredictRepeatLast>(1);
    }
    /// One advance_frame tick from any invariant state, prediction window 2, PredictRepeatLast.
    #[kani::proof]
    #[kani::unwind(5)]
    #[kani::stub(alloc::fmt::format, stub_format)]
    fn pi_tick_w2_rl() {
        tick_step::<CfgRL, crate::PredictRepeatLast>(2);
    }
    /// One advance_frame tick from any invariant state, prediction window 2, PredictDefault.
    #[kani::proof]
    #[kani::unwind(5)]
    #[kani::stub(alloc::fmt::format, stub_format)]
    fn pi_tick_w2_def() {
        tick_step::<CfgDef, crate::PredictDefault>(2);
    }
}
