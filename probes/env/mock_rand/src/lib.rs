//! Stand-in for `rand::random`: values come from a counter the harness can seed (or make nondeterministic).
use std::sync::atomic::{AtomicU64, Ordering};
static NEXT: AtomicU64 = AtomicU64::new(0x1234_5678);
pub fn seed(v: u64) { NEXT.store(v, Ordering::Relaxed); }
pub trait FromU64 { fn from_u64(v: u64) -> Self; }
impl FromU64 for u16 { fn from_u64(v: u64) -> Self { v as u16 } }
impl FromU64 for u32 { fn from_u64(v: u64) -> Self { v as u32 } }
impl FromU64 for u64 { fn from_u64(v: u64) -> Self { v } }
pub fn random<T: FromU64>() -> T {
    let v = NEXT.load(Ordering::Relaxed);
    NEXT.store(v.wrapping_mul(6364136223846793005).wrapping_add(1442695040888963407), Ordering::Relaxed);
    T::from_u64(v >> 16)
}
