//! Helpers that need `unsafe` (ggrs forbids it): a fixed-key RandomState for Kani.
pub fn fixed_random_state() -> std::hash::RandomState {
    // RandomState { k0: u64, k1: u64 }
    unsafe { std::mem::transmute::<[u64; 2], std::hash::RandomState>([0x0123_4567_89ab_cdef, 0x0f1e_2d3c_4b5a_6978]) }
}
