"""Run Kani harnesses over the regenerated encoding and turn Kani's own output into a verdict.

Verdict semantics (DESIGN.md section 3):
  pass          VERIFICATION:- SUCCESSFUL and every kani::cover! witness SATISFIED
  violation     a failed check other than an unwinding assertion / unsupported construct,
                whose concrete-playback test reproduces natively (panics) in the scratch tree
  inconclusive  everything else (time-out, memory-out, unwinding failure, unsatisfied cover,
                compile error, non-reproducing counterexample)  -> exit 2, never success
"""
import concurrent.futures as cf
import json, os, re, resource, shutil, signal, subprocess, sys, time

from regen import build_scratch, EncodingError, repo_fingerprint, VERIF

KANI_FLAGS = ["-Z", "stubbing"]
ENVV = dict(os.environ, CARGO_NET_OFFLINE="true", CARGO_TERM_COLOR="never")


def _limits(mem_gb):
    def f():
        os.setsid()
        lim = int(mem_gb * (1 << 30))
        resource.setrlimit(resource.RLIMIT_AS, (lim, lim))
    return f


def _run(cmd, cwd, log, timeout, mem_gb=None):
    t0 = time.time()
    with open(log, "w") as lf:
        p = subprocess.Popen(cmd, cwd=cwd, stdout=lf, stderr=subprocess.STDOUT, env=ENVV,
                             preexec_fn=_limits(mem_gb) if mem_gb else os.setsid)
        try:
            rc = p.wait(timeout=timeout)
            to = False
        except subprocess.TimeoutExpired:
            to = True
            try:
                os.killpg(p.pid, signal.SIGKILL)
            except ProcessLookupError:
                pass
            p.wait()
            rc = -9
    return rc, to, time.time() - t0


class Build:
    """One regenerated scratch crate + one Kani target dir."""

    def __init__(self, root, key, harness_files, consts):
        self.key = key
        self.dir = os.path.join(root, key)
        self.crate = os.path.join(self.dir, "ggrs")
        self.target = os.path.join(self.dir, "target")
        self.logs = os.path.join(self.dir, "logs")
        self.harness_files = list(harness_files)
        self.consts = dict(consts or {})
        self.info = None
        self.codegen_s = None

    def index(self):
        """harness name -> (fully qualified name, harness file, module rel path, verif module name)"""
        self.hidx = {}
        for hf in self.harness_files:
            base = os.path.basename(hf)
            txt = open(os.path.join(VERIF, "harness", base)).read()
            modpart = base[:-3].split("@")[0]
            mm = re.search(r"mod\s+(verif_\w+)", txt)
            if not mm:
                continue
            names = re.findall(r"#\[kani::proof\][^\n]*\n(?:\s*#\[[^\n]*\n)*\s*fn\s+(\w+)", txt)
            for m in re.finditer(r"^\s*\w+!\(\s*([a-z]{1,2}_\w+)\s*,", txt, re.M):
                names.append(m.group(1))
            for n in names:
                self.hidx[n] = ("::".join(modpart.split("__")) + "::" + mm.group(1) + "::" + n, base,
                                os.path.join("src", *modpart.split("__")) + ".rs", mm.group(1))
        return self.hidx

    def fq(self, name):
        return self.hidx[name][0]

    def prepare(self):
        os.makedirs(self.logs, exist_ok=True)
        self.index()
        self.info = build_scratch(self.dir, self.harness_files, self.consts)
        log = os.path.join(self.logs, "_codegen.log")
        rc, to, dt = _run(["cargo", "kani", "--only-codegen", "--target-dir", self.target] + KANI_FLAGS,
                          self.crate, log, 900)
        self.codegen_s = dt
        if rc != 0:
            tail = open(log, errors="replace").read()[-3000:]
            raise EncodingError("harness build failed against the current tree (build %s):\n%s" % (self.key, tail))


_CHECK_RE = re.compile(r"^Check (\d+): (.+)$")


def parse_kani_log(text):
    r = {"verdict_line": None, "checks_total": 0, "checks_failed": 0, "failed": [], "covers": [],
         "symex_s": None, "solver_s": 0.0, "verif_s": None, "functions": set(), "vccs": None,
         "unwind_fail": False, "unsupported": False, "oom": False, "stubs": []}
    cur = None
    for line in text.split("\n"):
        m = _CHECK_RE.match(line)
        if m:
            cur = {"name": m.group(2).strip(), "status": None, "desc": None, "loc": None}
            fn = cur["name"].rsplit(".", 2)[0] if cur["name"].count(".") >= 2 else cur["name"]
            r["functions"].add(fn)
            continue
        s = line.strip()
        if cur is not None and s.startswith("- Status:"):
            cur["status"] = s.split(":", 1)[1].strip()
        elif cur is not None and s.startswith("- Description:"):
            cur["desc"] = s.split(":", 1)[1].strip().strip('"')
        elif cur is not None and s.startswith("- Location:"):
            cur["loc"] = s.split(":", 1)[1].strip()
            st = cur["status"]
            if ".cover." in cur["name"] or st in ("SATISFIED", "UNSATISFIABLE"):
                r["covers"].append(cur)
            else:
                r["checks_total"] += 1
                if st == "FAILURE":
                    r["checks_failed"] += 1
                    r["failed"].append(cur)
                elif st == "UNDETERMINED":
                    pass
            cur = None
        elif s.startswith("Runtime Symex:"):
            r["symex_s"] = float(s.split(":")[1].strip().rstrip("s"))
        elif s.startswith("Runtime Solver:"):
            r["solver_s"] += float(s.split(":")[1].strip().rstrip("s"))
        elif s.startswith("Verification Time:"):
            r["verif_s"] = float(s.split(":")[1].strip().rstrip("s"))
        elif s.startswith("VERIFICATION:-"):
            r["verdict_line"] = s
        elif s.startswith("Generated ") and "VCC" in s:
            m2 = re.match(r"Generated (\d+) VCC\(s\), (\d+) remaining", s)
            if m2:
                r["vccs"] = [int(m2.group(1)), int(m2.group(2))]
        elif s.startswith("- Stub:") or s.startswith("Stub:"):
            r["stubs"].append(s)
        if "std::bad_alloc" in line or "Out of memory" in line or "out of memory" in line:
            r["oom"] = True
    for c in r["failed"]:
        d = (c["desc"] or "")
        if "unwinding assertion" in d:
            r["unwind_fail"] = True
        if "not currently supported by Kani" in d or "unsupported" in d.lower():
            r["unsupported"] = True
    r["functions"] = sorted(r["functions"])
    return r


def extract_playback_test(text):
    """Kani prints the generated unit test between ``` fences after 'Concrete playback unit test for'."""
    m = re.search(r"Concrete playback unit test for `([^`]+)`:\s*```\s*\n(.*?)```", text, re.S)
    if not m:
        return None, None
    code = m.group(2)
    name = re.search(r"fn (kani_concrete_playback_\w+)\s*\(", code)
    return code, name.group(1) if name else None


def unwindset_args(build, name, hints):
    """Per-loop unwinding bounds: hints maps a substring of the loop's function (as printed by
    goto-instrument --show-loops) to a bound; loops not matched keep the harness's #[kani::unwind]."""
    # the container model's loops run over its CAP (=8) slots whatever the harness's own bound is
    cap = int(build.consts.get("VCOLL_CAP", 8)) + 1
    hints = dict({"function vcoll::": cap, "as std::iter::Iterator>::next": cap}, **(hints or {}))
    import glob
    cands = glob.glob(os.path.join(build.target, "kani", "*", "debug", "build", "ggrs", "*", "out", "*%d%s.out" % (len(name), name)))
    if not cands:
        raise EncodingError("unwindset: goto binary of harness %s not found" % name)
    cands.sort(key=lambda f: -os.path.getmtime(f))
    out = subprocess.run(["goto-instrument", "--show-loops", cands[0]], capture_output=True, text=True, errors="replace").stdout
    pairs = []
    lines = out.split("\n")
    for i, l in enumerate(lines):
        m = re.match(r"^Loop (\S+):\s*$", l)
        if not m:
            continue
        desc = lines[i + 1] if i + 1 < len(lines) else ""
        for pat, n in hints.items():
            if pat in desc:
                pairs.append("%s:%d" % (m.group(1), n))
                break
    if not pairs:
        return []
    return ["-Z", "unstable-options", "--cbmc-args", "--unwindset", ",".join(pairs)]


def run_harness(build, spec, tier):
    """spec: dict(name, timeout, mem). Returns result dict."""
    name = spec["name"]
    timeout = spec.get("timeout", 600)
    mem = spec.get("mem", 12)
    log = os.path.join(build.logs, name + ".log")
    cmd = ["cargo", "kani", "--target-dir", build.target] + KANI_FLAGS + ["--harness", build.fq(name), "--exact"]
    cmd += unwindset_args(build, name, spec.get("unwindset"))
    rc, to, dt = _run(cmd, build.crate, log, timeout, mem)
    text = open(log, errors="replace").read()
    p = parse_kani_log(text)
    res = {"harness": name, "build": build.key, "wall_s": round(dt, 1), "rc": rc, "timeout": to, "log": log,
           "checks_total": p["checks_total"], "checks_failed": p["checks_failed"],
           "failed": [{"check": c["name"], "desc": c["desc"], "loc": c["loc"]} for c in p["failed"]],
           "covers": [{"desc": c["desc"], "status": c["status"]} for c in p["covers"]],
           "symex_s": p["symex_s"], "solver_s": round(p["solver_s"], 2), "vccs": p["vccs"],
           "functions": p["functions"], "limits": {"timeout_s": timeout, "mem_gb": mem}}
    covers_ok = all(c["status"] == "SATISFIED" for c in p["covers"])
    if to:
        res["status"], res["why"] = "inconclusive", "time-out after %ss" % timeout
    elif p["verdict_line"] == "VERIFICATION:- SUCCESSFUL":
        if not covers_ok:
            res["status"], res["why"] = "inconclusive", "vacuity: a reachability cover is not satisfied"
        else:
            res["status"] = "pass"
    elif p["verdict_line"] == "VERIFICATION:- FAILED":
        real = [c for c in p["failed"] if "unwinding assertion" not in (c["desc"] or "")
                and "not currently supported" not in (c["desc"] or "")]
        if p["oom"]:
            res["status"], res["why"] = "inconclusive", "solver ran out of memory"
        elif real:
            res["status"] = "fail"
        elif p["unwind_fail"]:
            res["status"], res["why"] = "inconclusive", "unwinding assertion failed (bound too small)"
        elif p["unsupported"]:
            res["status"], res["why"] = "inconclusive", "unsupported construct reachable"
        else:
            res["status"], res["why"] = "inconclusive", "FAILED without an identifiable failed check (CBMC error / memory)"
    else:
        res["status"] = "inconclusive"
        res["why"] = "no verdict (rc=%s): %s" % (rc, text[-400:].replace("\n", " | "))
    return res


def inject_playback(path, modname, code):
    """Insert the generated #[test] right after the opening line of the harness module (so that it
    sees the module's private harness functions)."""
    src = open(path).read()
    m = re.search(r"^(?:pub\(crate\)\s+)?mod\s+%s\s*\{[^\n]*\n" % re.escape(modname), src, re.M)
    if not m:
        raise EncodingError("playback: module %s not found in %s" % (modname, path))
    u = src.index("use super::*;", m.end()) + len("use super::*;")
    src = src[:u] + "\n" + code + "\n" + src[u:]
    open(path, "w").write(src)


def playback(build, spec, res, outdir):
    """Re-run a failing harness with concrete playback, inject the generated test and run it natively.
    Returns (reproduced: bool|None, replay_path|None, note)."""
    name = spec["name"]
    log = os.path.join(build.logs, name + ".playback.log")
    cmd = ["cargo", "kani", "--target-dir", build.target] + KANI_FLAGS + \
          ["-Z", "concrete-playback", "--concrete-playback=print", "--harness", build.fq(name), "--exact"] + \
          unwindset_args(build, name, spec.get("unwindset"))
    # trace generation needs the unsliced formula: give it more room than the verdict run
    rc, to, dt = _run(cmd, build.crate, log, spec.get("timeout", 600) * 3, max(32, spec.get("mem", 12) * 3))
    text = open(log, errors="replace").read()
    code, tname = extract_playback_test(text)
    if not code:
        return None, None, "no concrete-playback test was produced"
    _fq, _base, target_rel, modname = build.hidx[name]
    p = os.path.join(build.crate, target_rel)
    inject_playback(p, modname, code)
    os.makedirs(outdir, exist_ok=True)
    rpath = os.path.join(outdir, name + ".playback.rs")
    with open(rpath, "w") as f:
        f.write("// harness: %s\n// build: %s consts=%s files=%s\n// target: %s\n// module: %s\n%s" % (
            name, build.key, json.dumps(build.consts), json.dumps([os.path.basename(x) for x in build.harness_files]),
            target_rel, modname, code))
    verdicts = {}
    for prof in ("dev", "release"):
        plog = os.path.join(build.logs, name + ".replay.%s.log" % prof)
        cmd = ["cargo", "kani", "playback", "-Z", "concrete-playback"] + KANI_FLAGS
        if prof == "release":
            cmd += ["--release"]
        cmd += ["--", tname]
        env_t = os.path.join(build.dir, "target-playback")
        rc2, to2, _ = _run(cmd, build.crate, plog, 900)
        t = open(plog, errors="replace").read()
        if re.search(r"test result: FAILED", t) or re.search(r"test .*%s .*FAILED" % tname, t):
            verdicts[prof] = "fails"
        elif re.search(r"test result: ok\. 1 passed", t):
            verdicts[prof] = "passes"
        else:
            verdicts[prof] = "error"
    reproduced = verdicts.get("dev") == "fails" or verdicts.get("release") == "fails"
    note = "native replay: dev=%s release=%s" % (verdicts.get("dev"), verdicts.get("release"))
    return reproduced, rpath, note
