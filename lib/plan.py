"""Catalogue: which harnesses decide which property, in which regenerated build, at which tier."""

COMMON_ASSUMPTIONS = [
    "Kani 0.68 / CBMC 6.11 / cadical and the rustc MIR they consume are correct; dev-profile semantics (overflow checks, debug_assert on)",
    "encoding rewrite R1: std HashMap/HashSet/BTreeMap replaced by Vec-backed association lists with the same finite-map semantics (/verif/env/vcoll.rs)",
    "encoding rewrite R2: instant -> virtual millisecond clock, rand -> harness-filled tape, tracing -> no-op macros (arguments checked read-only), parking_lot::Mutex -> RefCell (sequential), anyhow -> zero-sized error",
    "generic instantiation: Config::Input = u8 (bincode size 1), Address = u8, State = u32; predictors PredictRepeatLast and PredictDefault where stated",
    "frame counters < 2^30 in inductive harnesses; i32 frame overflow is outside every claim",
]

BUILDS = {
    "codec": {"files": ["network__compression.rs"], "consts": {}},
}

# per-harness defaults (timeout seconds, memory GB)
HARNESS = {}

def H(name, build, tier="quick", timeout=300, mem=8, **kw):
    d = {"name": name, "build": build, "tier": tier, "timeout": timeout, "mem": mem}
    d.update(kw)
    return d

PROPERTIES = {}
NOT_APPLICABLE = {}
HOOK_COMMITS = []
NOTES = ("Exit codes of bin/check: 0 held, 1 violation (replayed natively), 2 inconclusive (cap hit, vacuous harness, "
         "encoding failed, non-reproducing counterexample) - an inconclusive run is never reported as success. "
         "Scratch copies live under /var/tmp/ggrs-verif.<pid> and are removed on exit.")

import os, re
_HDIR = os.path.join(os.path.dirname(os.path.dirname(os.path.abspath(__file__))), "harness")

def names_in(fname, rx=".*"):
    """All harness names defined in a harness file (direct #[kani::proof] fns and macro instances) matching rx."""
    txt = open(os.path.join(_HDIR, fname)).read()
    names = re.findall(r"#\[kani::proof\][^\n]*\n(?:\s*#\[[^\n]*\n)*\s*fn\s+(\w+)", txt)
    names += [m.group(1) for m in re.finditer(r"^\s*\w+!\(\s*([a-z]{1,2}_\w+)\s*,", txt, re.M)]
    return [n for n in names if re.fullmatch(rx, n)]

BUILDS["codec"] = {"files": ["network__compression.rs"], "consts": {}}
BUILDS["codec_more"] = {"files": ["network__compression@more.rs"], "consts": {}}

K_QUICK = ([H("k_len_prefix_u16", "codec", mem=4)]
           + [H(n, "codec", mem=4) for n in names_in("network__compression.rs", "k_delta_roundtrip_.*")]
           + [H(n, "codec", mem=4) for n in names_in("network__compression.rs", "k_delta_total_.*")]
           + [H(n, "codec", timeout=600, mem=8) for n in names_in("network__compression.rs", "k_rle_stage_total_len[123]")]
           + [H(n, "codec", timeout=600, mem=8) for n in names_in("network__compression.rs", "k_rle_guard_len[1-5]")]
           + [H("k_rle_guard_len8", "codec", timeout=1200, mem=10), H("k_rle_guard_len12", "codec", timeout=1800, mem=12)])
K_THOROUGH = ([H(n, "codec_more", tier="thorough", mem=4) for n in names_in("network__compression@more.rs")]
              + [H("k_rle_guard_len6", "codec", tier="thorough", timeout=900, mem=8),
                 H("k_rle_roundtrip_len1", "codec", tier="thorough", timeout=1200, mem=16),
                 H("k_rle_roundtrip_len2", "codec", tier="thorough", timeout=2400, mem=24)])

PROPERTIES["C14"] = {
    "level": "model_checking",
    "harnesses": K_QUICK + K_THOROUGH,
    "claim": "Solver-decided (Kani/CBMC) on the real codec code, stage-wise: (1) delta layer round trip delta_decode(r, delta_encode(r, xs)) == xs for every byte value at every enumerated length shape (reference 0..3 bytes, two inputs of 0..3 bytes); (2) delta stage totality and exactness on every length shape of total size <= 5 (quick) / 7 (thorough) bytes incl. truncated prefixes and over-long length claims, all payload bytes symbolic, with re-encoding equal to the input; (3) the real decode()'s RLE stage on every byte string of <= 3 bytes (no panic/overflow/OOB, malformed rejected); (4) the guard in front of bitfield_rle::decode on every byte string of <= 5, 8 and 12 (6 thorough) bytes: malformed or oversized (> 4x legitimate maximum) streams never reach the allocator; (5) u16 length prefix faithful for all lengths <= 65535; thorough adds the real bitfield-rle encode/decode round trip for every buffer of 1..2 bytes.",
    "note": "bitfield-rle/varinteger are the real crates from the cargo cache; lengths are enumerated shapes up to the stated bound while all byte values are symbolic; stage (3) assumes the well-formed reading decodes to <= 4 bytes (loop bound); the composition encode->decode through the real RLE crate for symbolic content is outside the quick claim (CBMC runs out of memory on symbolic-length heap copies) and rests on stages (1)+(thorough RLE round trip)",
    "bounds": {"delta round trip": "reference <= 3 bytes, 2 inputs <= 3 bytes each (6 shapes)", "delta totality": "all shapes with total size <= 5 (quick) / <= 7 (thorough)",
               "rle stage": "data <= 3 bytes, decoded size <= 4", "rle guard": "data <= 5 bytes (6 thorough)", "unwind": "per harness, with unwinding assertions"},
    "outside": ["inputs longer than 3 bytes in round trips", "whole encode->RLE->decode chain with symbolic content (memory)", "RLE round trip beyond 2 bytes"],
    "assumptions": ["k_rle_stage_total_*: delta stage stubbed (decided separately)", "k_rle_guard_*: bitfield_rle::decode and delta stage stubbed (only the guard is exercised)"],
}


# ------------------------------------------------------------------------------------------------
BUILDS["proto"] = {"files": ["network__protocol.rs", "network__protocol@b.rs", "network__protocol@c.rs"],
                   "consts": {"PENDING_OUTPUT_SIZE": 4, "MAX_CHECKSUM_HISTORY_SIZE": 4}}
BUILDS["queue"] = {"files": ["input_queue.rs", "sync_layer.rs"], "consts": {"INPUT_QUEUE_LENGTH": 8},
                   "consts_thorough": {"INPUT_QUEUE_LENGTH": 16}}
BUILDS["tsync"] = {"files": ["time_sync.rs"], "consts": {}}
BUILDS["sess_ep"] = {"files": ["input_queue.rs", "sync_layer.rs", "network__protocol.rs", "sessions__p2p_session@ep.rs"],
                     "consts": {"INPUT_QUEUE_LENGTH": 8, "VCOLL_CAP": 4}}

BUILDS["sess_calls"] = {"files": ["input_queue.rs", "sync_layer.rs", "network__protocol.rs", "sessions__p2p_session.rs", "sessions__p2p_session@calls.rs"],
                        "consts": {"INPUT_QUEUE_LENGTH": 8, "VCOLL_CAP": 4, "MAX_EVENT_QUEUE_SIZE": 4, "MAX_CHECKSUM_HISTORY_SIZE": 4}}
BUILDS["spect"] = {"files": ["network__protocol.rs", "sessions__p2p_spectator_session.rs"], "consts": {"SPECTATOR_BUFFER_SIZE": 8, "VCOLL_CAP": 4}}
BUILDS["synct"] = {"files": ["input_queue.rs", "sync_layer.rs", "sessions__sync_test_session.rs"], "consts": {"INPUT_QUEUE_LENGTH": 8, "VCOLL_CAP": 4}}

BUILDS["sess_perm"] = {"files": ["input_queue.rs", "sync_layer.rs", "network__protocol.rs", "sessions__p2p_session@ep.rs"],
                       "consts": {"INPUT_QUEUE_LENGTH": 8, "VCOLL_CAP": 4, "CFG_ggrs_verif_permute": 1}}
BUILDS["vcoll"] = {"files": ["vcoll.rs"], "consts": {"VCOLL_CAP": 4}}
BUILDS["builder"] = {"files": ["sessions__builder.rs"], "consts": {"VCOLL_CAP": 4, "CFG_vcoll_boxmap": 1, "INPUT_QUEUE_LENGTH": 8}}
B_SYNCTEST = [H("b_synctest_w0", "builder", mem=10, timeout=900)]

RING = {"extend_with": 17}
def Q(n, **kw):
    kw.setdefault("timeout", 900); kw.setdefault("mem", 10); kw.setdefault("timeout_thorough", 5400); kw.setdefault("mem_thorough", 24)
    return H(n, "queue", unwindset=RING, **kw)

Q_ADD = [Q("q_add_step_rl"), Q("q_add_step_def")]
Q_INPUT = [Q("q_input_step_rl"), Q("q_input_step_def")]
Q_MISC = [Q("q_discard_step"), Q("q_confirmed_input_step"), Q("q_reset_step")]
Q_DELAY = [Q("q_delay_increase_steady"), Q("q_delay_before_first_input")]
S_MIN = [Q("s_consistency_is_min", mem=6)]
S_INPUTS = [Q("s_synchronized_inputs_contract", mem=8), Q("s_confirmed_inputs_contract", mem=8)]
S_CONF = [Q("s_set_last_confirmed_contract", mem=8)]
S_CELLS = [Q("s_cells_ring_w1", mem=8), Q("s_cells_ring_w2", mem=8), Q("s_cells_ring_w3", mem=8)]

def U(n, **kw):
    kw.setdefault("mem", 8)
    return H(n, "proto", **kw)

U_TIMERS = [U(n) for n in ["u_poll_interrupt_timer", "u_poll_disconnect_timer", "u_poll_both_in_order",
            "u_poll_interrupt_payload_default", "u_poll_interrupt_payload_zero", "u_poll_interrupt_payload_saturating", "u_poll_interrupt_payload_one"]]
U_LIVENESS = [U(n) for n in ["u_foreign_magic_ignored", "u_liveness_and_resume"]]
U_MALFORMED = [U(n) for n in ["u_input_wrong_status_count_dropped", "u_input_negative_start_dropped"]] + [U("u_on_input_wrong_size_first_of_two", timeout=1800, mem=14)]  # (u_on_input_wrong_size_second_of_two: > 19 GB after 200 s of solving, not registered)
U_LOSTACK = [U(n) for n in names_in("network__protocol@b.rs", "u_lost_ack_reply_.*")]
U_STREAM_Q = [U(n, timeout=600, mem=14) for n in names_in("network__protocol@b.rs", "u_on_input_stream_.*_k1")] + \
             [U("u_on_input_stream_l5_s7_k2"), U("u_input_ack_content", timeout=600, mem=10),
              U("u_ack_releases_prefix"), U("u_send_input_packet_shape")]
U_STREAM_T = [U(n, tier="thorough", timeout=3000, mem=44) for n in
              ["u_on_input_stream_l5_s5_k2", "u_on_input_first_packet_s0", "u_on_input_first_packet_s2"]]
U_CAP = [U("u_pending_output_cap_disconnect_once")]
U_HANDSHAKE = [U(n) for n in ["u_handshake_step", "u_sync_reply_after_handshake_ignored", "u_sync_request_echoed", "u_sync_retry_timer"]]
U_QUALITY = [U(n) for n in ["u_local_frame_advantage", "u_quality_report_and_reply", "u_quality_report_sent", "u_network_stats_contract"]]
U_CHECKSUM = [U("u_checksum_report_store_bounded")]
M_ALL = [H(n, "tsync", mem=6, timeout=600) for n in ["m_average_within_one", "m_steady_lead", "m_advance_frame_slot"]]
def PC(n, **kw):
    kw.setdefault("mem", 10); kw.setdefault("timeout", 900)
    hints = {"extend_with": 9}
    hints.update(kw.pop("unwindset", {}))
    return H(n, "sess_calls", unwindset=hints, **kw)

PC_GLUE = [PC("pc_rollback_and_save_dense", unwindset={"drop_glue": 2}), PC("pc_prediction_gate", unwindset={"drop_glue": 2})]
PC_SPARSE = [PC("pc_rollback_and_save_sparse", unwindset={"drop_glue": 2})]
PC_ADJUST = [PC(n, unwindset={"drop_glue": 2, "verif_q": 9}, timeout=1800) for n in names_in("sessions__p2p_session@calls.rs", "pc_adjust_.*")]
PC_LOCKSTEP = [PC("pc_lockstep_frame", unwindset={"drop_glue": 2, "verif_q": 9})]
PC_DELAY = [PC("pc_delay_1_to_0", unwindset={"drop_glue": 2, "verif_q": 9}, timeout=1200)]
Q_DELAY2 = [Q("q_delay_twice_1_2_2_control"), Q("q_delay_twice_2_0_0_control"),
            Q("q_delay_twice_1_2_3", finding="F4"), Q("q_delay_twice_2_0_3", finding="F4"), Q("q_delay_twice_1_3_1", finding="F4")]
PE_TWO = [H("pe_two_disconnects_one_poll", "sess_ep", timeout=900, mem=12, unwindset={"extend_with": 9})]
PE_PERM = [H("pe_gossip_order_independent", "sess_perm", timeout=1200, mem=12, unwindset={"extend_with": 9})]
VC_SELF = [H("vc_map_laws", "vcoll", mem=4), H("vc_btree_order", "vcoll", mem=4)]
PC_REGISTER = [PC("pc_register_two_locals_lagging_first", unwindset={"drop_glue": 2, "verif_q": 9}),
               PC("pc_register_two_locals_lagging_second", unwindset={"drop_glue": 2, "verif_q": 9})]
PC_INPUT = [PC("pc_input_event")]
PC_CONF = [PC(n) for n in ["pc_confirmed_frame_min_n2", "pc_confirmed_frame_min_n3", "pc_confirmed_frame_min_n4"]]
PC_DISC = [PC("pc_disconnect_player_contract"), PC("pc_disconnected_event")]
PC_EVENTS = [PC("pc_event_forwarding_and_cap"), PC("pc_wait_recommendation_respects_cap"), PC("pc_running_iff_all_synchronized")]
PC_WAIT = [PC("pc_wait_recommendation_gate")]
PC_CHECKSUM = [PC(n, mem=12, timeout=1500) for n in names_in("sessions__p2p_session@calls.rs", "pc_checksum_send_gate_.*")] + [PC("pc_checksum_compare")]
PC_MISUSE = [PC("pc_misuse_errors"), PC("pc_set_delay_wrong_handle"), PC("pc_advance_not_synchronized"), PC("pc_advance_input_missing")]
V_ALL = [H(n, "spect", mem=8, timeout=900, unwindset={"SpectatorSession": 9, "drop_glue": 2})
         for n in names_in("sessions__p2p_spectator_session.rs", "v_advance_.*") if n != "v_advance_r21_behind7_catchup9"] + \
        [H("v_input_event_step", "spect", mem=8, timeout=900),
         H("v_advance_r21_behind7_catchup9", "spect", tier="thorough", mem=24, timeout=2400, unwindset={"SpectatorSession": 9, "drop_glue": 2})]
T_UNIT = [H("t_checksum_comparison", "synct", mem=8, timeout=900, unwindset={"extend_with": 9}),
          H("t_checksum_comparison_cd2", "synct", mem=8, timeout=900, unwindset={"extend_with": 9})]
T_TICK = [H(n, "synct", mem=10, timeout=1200, unwindset={"extend_with": 9, "drop_glue": 2}) for n in ["t_tick_cd2_first_rollback", "t_tick_cd1_steady", "t_tick_cd2_before_rollbacks", "t_tick_cd0"]]
PC_OUTGOING = [PC("pc_outgoing_drained_any_endpoint_state", timeout=1500, unwindset={"drop_glue": 2, "verif_q": 9, "send_ready_outgoing": 3, "next_complete_outgoing": 5})]
U_NORESUME = [U("u_no_resume_after_disconnect")]
U_ORDER = [U("u_new_orders_handles")]
U_KEEPALIVE = [U("u_poll_quality_stands_in_for_keep_alive"), U("u_poll_keep_alive_bound"), U("u_poll_keep_alive_bound_retry_due"), U("u_poll_after_disconnect_quiet", timeout=900, mem=12)]

PE_CUTOFF = [H("pe_cutoff_agreement_gossip_not_earlier", "sess_ep", timeout=900, mem=12, unwindset={"extend_with": 9}),
             H("pe_cutoff_agreement_gossip_earlier", "sess_ep", timeout=900, mem=12, unwindset={"extend_with": 9}, finding="F3")]

IND_NOTE = ("[IND] harnesses quantify over every pre-state satisfying the stated representation invariant (one step covers histories of any length "
            "for the regenerated ring size); [FN]/[BMC] harnesses over all symbolic arguments/values at the enumerated shapes. ")

def P(pid, harnesses, claim, note, **kw):
    d = {"level": "model_checking", "harnesses": harnesses, "claim": claim, "note": IND_NOTE + note}
    d.update(kw)
    PROPERTIES[pid] = d

P("C01", Q_ADD + Q_INPUT + Q_MISC + S_MIN + S_CONF + PC_GLUE[:1] + PC_ADJUST[:2] + U_STREAM_Q + U_STREAM_T + PC_ADJUST[2:] + PC_CONF[1:2],
  "Kernels of the confirmed-timeline property decided on the real code: (Q, inductive, any history/ring wrap) add_input stores gaplessly, flags the earliest frame whose real input differs from the prediction handed out, input() hands out stored values as Confirmed; discard never drops a frame that can still be requested; (S) the rollback target is the earliest of all mispredictions and the disconnect frame; confirmed-frame bookkeeping keeps every frame a rollback can ask for; (PC) handle_rollback_and_save starts the rollback exactly then and from that frame, and the real adjust_gamestate re-simulates every frame from it with the stored real inputs as Confirmed (prediction only beyond the newest input) - also when a remote queue is still in prediction mode without a misprediction of its own (the rollback resets every queue); confirmed_frame() is the minimum over all connected players; (U) the receiver delivers exactly the frames after its newest one, once, in order, with the packet's values, and acks release exactly the acknowledged prefix.",
  "Session-level composition (several ticks of P2PSession from its initial state) is outside what CBMC can symbolically execute here (a 4-tick run needs > 2M symex steps and > 40 GB); the claim is the conjunction of the component contracts, not an end-to-end run. Ring size 8 (quick) / 16 (thorough) instead of 128; u8 inputs; packets of 1-2 decoded inputs.")
P("C02", S_CELLS + Q_MISC + S_CONF + PC_GLUE[:1] + PC_ADJUST + PC_SPARSE,
  "Saved-state ring: after saving w+1 consecutive frames (the most a session holds) each of the w frames still open to rollback is loadable and returns exactly what was saved for it, for w = 1,2,3 and any base frame; load_frame moves the frame counter to the loaded frame; queue windows keep every frame from (confirmed-1) on; handle_rollback_and_save (dense) ends every call - also a repeated call on a stalled frame - with a SaveGameState for the current frame, (sparse) saves/rolls back exactly when the last saved frame would leave the window; adjust_gamestate's request list: one Load (first incorrect frame, dense / last saved frame, sparse) whose cell holds that frame, then gapless re-advances with a Save before each re-simulated frame but the loaded one (dense) / only at the confirmed frame (sparse), frame counter back where it started (5 instances).",
  "The request-list shape of whole advance_frame calls is decided only through these component contracts (see C01 note).")
P("C03", Q_INPUT + Q_ADD + Q_MISC[2:] + S_INPUTS + PC_INPUT + PC_CONF,
  "Input status truthfulness on the real InputQueue/SyncLayer: Confirmed <=> the frame's real input is stored, and the value is that input; Predicted => not yet received and value = predictor(newest received) (default if none), for PredictRepeatLast and PredictDefault, from any queue state; Disconnected <=> the player is disconnected as of an earlier frame, with the default input; the boundary frame (last real input) stays Confirmed; a late input event of a player already marked disconnected changes nothing (its cut-off stays frozen); confirmed_frame() = min over every connected player of its newest received frame, for all flag/frame combinations of 2..4 players.",
  "confirmed_frame() monotonicity and finality across whole sessions rest on the component contracts (see C01 note).")
P("C05", U_LOSTACK + U_STREAM_Q + U_HANDSHAKE + U_TIMERS[:3] + U_STREAM_T,
  "Lost-ack lemma on the real on_input: a retransmission whose base frame the receiver has already pruned (1/3/5 lost acks for prediction window 0/1/2) is answered with an ack for the receiver's newest frame, so the sender's base moves forward; acks release exactly the acknowledged prefix and leave the pending outputs starting right after the new base; duplicates/overlaps are skipped without double delivery; handshake: one inductive step from any Synchronizing state on any SyncReply, retry timer.",
  "Bounded liveness over multi-packet fault schedules with two live endpoints is not run (cost); the lemma plus the ack/stream contracts are its inductive core.")
P("C07", U_TIMERS + S_MIN + S_INPUTS + PC_DISC + PE_TWO,
  "Timers on the real poll(): NetworkInterrupted iff not yet announced and silence > notify delay (payload timeout-notify), Disconnected iff not yet sent and silence > timeout, never earlier, each once, in this order; rollback target includes the disconnect frame (min); a disconnected player's inputs are default/Disconnected exactly for frames after its last real one.",
  "The survivor's multi-tick timeline after a drop is covered only through these contracts.")
P("C08", U_MALFORMED + U_LIVENESS + [h for h in K_QUICK if h["name"].startswith(("k_rle_stage_total", "k_rle_guard", "k_delta_total"))],
  "On the real handle_message/on_input/decode: an input packet with a wrong number of connection statuses or ANY negative start frame is dropped with no effect at all (no ack processed, no gossip merged, nothing delivered, no reply); a decoded frame whose size does not fit the player count drops itself and everything after it in the packet - no gap is opened, nothing is remembered or acknowledged (instance: the first of two frames is malformed); a packet with another session's magic has no effect and does not refresh the receive timer; every byte string (<= 3 bytes through the RLE stage, <= 5 and 8 and 12 through the guard (12 bytes: three maximal run tokens - the sum, not only each run, is bounded), every delta shape <= 5 bytes) is decoded or rejected without panic/overflow/OOB and without oversized allocation.",
  "Narrow reading of 'wrong size': payload not divisible by the player count or not deserialisable; a header-valid packet with garbage payload still has its ack/gossip processed (as the code documents).")
P("C09", U_CHECKSUM + PC_CHECKSUM + PC_CONF[1:2],
  "check_checksum_send_interval reports (and remembers) a checksum only for a frame at or below the LAST CONFIRMED frame - never on the strength of inputs not yet re-simulated - and labels it with the frame of the saved cell it was taken from, also when sparse saving makes a later saved frame stand in for the due one; compare_local_checksums_against_peers raises DesyncDetected iff both checksums of a frame below the confirmed frame exist and differ, carrying exactly the two values, and keeps reports it cannot compare yet; checksum report store of an endpoint stays within its cap under in-order reports (cap regenerated to 4), oldest entry dropped first, newest stored; send gate and comparison kernels (pc_checksum_*); the confirmed frame they rely on is the min over connected players.",
  "Kernels only (one call each); that a deterministic game never produces differing checksums over whole sessions rests on C01/C02 and is not run end to end.")
P("C10", PE_CUTOFF + S_MIN + PC_INPUT + PE_PERM + S_INPUTS,
  "Cut-off agreement kernel on the real update_player_disconnects with real endpoints: when a surviving peer gossips that a player is disconnected as of frame m and this peer holds its inputs up to L, this peer adopts min(L, m), schedules the resimulation from the next frame and does not re-arm it on the next tick.",
  "KNOWN FINDING F3: for m < L the unchanged tree keeps last_frame = L (witness pe_cutoff_agreement_gossip_earlier, see known_findings.json); the m >= L half, the late-input freeze and the order independence hold.")
P("C11", Q_DELAY + Q_DELAY2 + Q_ADD + PC_DELAY + PC_REGISTER + PC_OUTGOING,
  "InputQueue delay change in steady state: the fills set_frame_delay announces are exactly the frames and values the queue stores when the next input is added (gapless, repeat-last); a decrease drops the next submission; before the first input no fill is announced whatever the configured and new delay are, and the first input lands on frame = delay with default inputs before it; register_local_inputs hands the local input on and empties the outgoing buffer whatever protocol state the endpoint is in.",
  "KNOWN FINDING F4: two set_frame_delay calls before the next submission (witnesses q_delay_twice_1_2_3, _2_0_3, _1_3_1; controls with a repeated identical call pass). Session-level increase paths exceed the time cap (only the decrease instance pc_delay_1_to_0 is decided there).")
P("C12", U_HANDSHAKE + U_LIVENESS + U_NORESUME + U_TIMERS + U_CAP + PC_EVENTS + U_KEEPALIVE,
  "Lifecycle on the real endpoint: Synchronizing counts 1..4 then exactly one Synchronized after five distinct matched round trips (duplicates/stray/foreign replies do not count); NetworkResumed iff an interruption was announced; interruption/disconnect timers; a silent peer over the pending-output cap is asked to disconnect exactly once; keep-alive: a polled Running endpoint with nothing else to send queues a KeepAlive iff it has sent nothing for strictly more than 200 ms, so its newest transmission is never older than 200 ms after a poll (and any packet with the right magic refreshes the peer's receive timer: u_liveness_and_resume) - two sessions that merely poll cannot run into the 500 ms notify delay by themselves; after disconnect() an endpoint raises no event and sends nothing from its timers however long the silence, and shuts down iff strictly more than 5000 ms have passed.",
  "Session level: forwarding of endpoint events incl. the event-queue cap, Running iff every endpoint is synchronized, NotSynchronized before that (PC_EVENTS). The keep-alive kernel is decided per instance: quality report concretely due (it stands in for the keep-alive: one packet, not two) or concretely not due (both symbolic at once makes the send-queue position symbolic: solver out of memory); 'two sessions that merely poll never see an interruption' is not run end to end.")
P("C14", K_QUICK + K_THOROUGH, PROPERTIES["C14"]["claim"], PROPERTIES["C14"]["note"],
  bounds=PROPERTIES["C14"]["bounds"], outside=PROPERTIES["C14"]["outside"], assumptions=PROPERTIES["C14"]["assumptions"])
P("C15", M_ALL + U_QUALITY + PC_WAIT,
  "Kernel only: TimeSync average (f32 bit-precise) within one frame of the true mean difference and within one of k in a steady k-frame lead; frame-advantage formula; quality report/reply bookkeeping (ping = now - echoed timestamp, what one side reports as local is the other's remote); network_stats error/values contract; frames_ahead() counts only remotes that are not marked disconnected (0 if none is left).",
  "The closed-loop settling claims need >= 30 frames of two live sessions: outside reach.", level="other")
P("C17", U_HANDSHAKE + PE_TWO + PE_PERM + PC_REGISTER + VC_SELF + U_ORDER,
  "Handshake behaviour is the same function of message order for every value of the random nonces (nonces symbolic in the inductive step); the endpoint constructor orders its handles ascending for every order the registry delivers them in (slice i of a packet <-> i-th smallest handle); two disconnects in one poll and gossip adoption give the same result under every iteration order.",
  "Whole sessions executed twice under different permutations are outside reach; the order-sensitive sites named in the property's anchors are decided one by one.")
P("C18", U_CAP + U_CHECKSUM + U_STREAM_Q + Q_ADD + PC_EVENTS[:2] + PC_OUTGOING,
  "Bounds on the real buffers: remembered received inputs stay within [newest-2w, newest]; unacknowledged outputs of a silent peer trigger exactly one disconnect request at the cap; checksum store <= cap; InputQueue length <= ring size; the outgoing-local-input buffer is empty after register_local_inputs whatever protocol state (Running/Synchronizing/Disconnected/Shutdown) the only remote endpoint is in.",
  "The outgoing buffer is decided for one local player and one endpoint (two local players with different delays: pc_register_* under C11/C17).")

P("C06", V_ALL + S_INPUTS[1:],
  "Spectator replay on the real SpectatorSession::advance_frame from ring states an in-order feed produces (positions enumerated: level, 1/3/5/7 behind, exactly one ring lap and more behind, start of session; inputs, gossip symbolic): request count = catch-up contract, each request carries exactly the buffered inputs of its frame with Disconnected exactly where the host's gossip says so, cursor advances by the number delivered, PredictionThreshold iff not yet received, SpectatorTooFarBehind iff overwritten; in-order input events maintain the ring; host side: confirmed_inputs blanks exactly players disconnected as of an earlier frame.",
  "advance_frame's initial poll_remote_clients() is stubbed out in the V harnesses (host endpoint poll is decided by the U harnesses; with an empty socket it cannot touch the ring). Ring of 8 slots instead of 60. The host->spectator stream over a lossy link is covered by the C05/C01 endpoint contracts only.")
P("C13", T_UNIT + T_TICK + B_SYNCTEST,
  "Checksum comparison kernel of the real SyncTestSession::checksums_consistent for every frame of the check window: the first checksum of a frame is remembered, a later differing re-simulation is flagged, an equal one is not, history outside the window is dropped. One WHOLE advance_frame call from constructed run states (check distance 0/1/2, before the first rollback, on the first rollback, steady state with check distance 1): request list = Load(c-d) [cell holds it], (Save,) Advance with the stored inputs as Confirmed for every frame c-d..c-1, Save(c), Advance(new input); frame counter +1; the first checksum of every saved frame of the window is recorded already on the first rollback; a deterministic game is not flagged. Builder: with prediction window 0 start_synctest_session rejects every check distance (and sparse saving) with InvalidRequest.",
  "Runs over several ticks and the builder's rejection of check_distance >= window could not be executed symbolically within the caps (probes/attempted/README.md: the root cause of the Kani crash on Result<Session, GgrsError> is a 128-bit niche; two workarounds were tried). The whole-call harnesses use one player, concrete frame positions per instance and symbolic inputs/checksums; steady-state calls at check distance >= 2 (where the comparison itself is symbolic) are decided only through the kernel harness.")
P("C16", PC_MISUSE + PC_DISC[:1] + B_SYNCTEST,
  "Run-time misuse on the real P2PSession: input for a remote/unknown handle, delay change or stats for the wrong player type, advancing with the local input missing or before synchronisation, disconnecting a local/unknown/already disconnected player (also via the sibling handle of the same address) return the documented error and leave frame counter, event queue, pending inputs, statuses and send queues unchanged. Builder: only start_synctest_session at prediction window 0 (every configuration rejected with InvalidRequest).",
  "The SessionBuilder half of the property (accepted configurations == documented ones) is NOT decided beyond that one instance: every harness that forms a builder with registered players or builds a session exceeds 15-25 min of symbolic execution under all three niche-hiding container representations (the inline model crashes Kani 0.68: 128-bit niche, see probes/attempted/README.md).")
P("C04", PC_GLUE[1:] + PC_LOCKSTEP + PC_ADJUST + S_CELLS + PC_SPARSE[:1] + PC_CONF,
  "Prediction gate of the real advance_rollback_frame (rollback and local-input registration stubbed) from ANY frame counters, windows 1..3, dense and sparse saving: a new frame is simulated iff current - min(confirmed_frame(), current[, last saved]) < max_prediction (nothing confirmed counts as frame -1), a stalled call leaves the frame unchanged and returns no AdvanceFrame - so a peer starved for arbitrarily long never runs more than the window ahead; rollbacks load a frame inside the window whose cell holds it; confirmed_frame() itself = min over all connected players (2..4 players, every flag combination); lockstep (window 0): a frame is simulated iff every connected player's input for it has arrived, only with Confirmed/Disconnected inputs, never Save/Load.",
  "The gate harness stubs handle_rollback_and_save, register_local_inputs (its effect on the local newest frame is mimicked) and the spectator feed; windows 0..3 instead of 0..12 (the gate is parametric in the window).")
