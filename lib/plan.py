"""Catalogue: which harnesses decide which property, in which regenerated build, at which tier."""

COMMON_ASSUMPTIONS = [
    "Kani 0.68 / CBMC 6.11 / cadical and the rustc MIR they consume are correct; dev-profile semantics (overflow checks, debug_assert on)",
    "encoding rewrite R1: std HashMap/HashSet/BTreeMap replaced by Vec-backed association lists with the same finite-map semantics (/verif/env/vcoll.rs)",
    "encoding rewrite R2: instant -> virtual millisecond clock, rand -> harness-filled tape, tracing -> no-op macros (arguments checked read-only), parking_lot::Mutex -> RefCell (sequential), anyhow -> zero-sized error",
    "generic instantiation: Config::Input = u8 (bincode size 1), Address = u8, State = u32; predictors PredictRepeatLast and PredictDefault where stated",
    "frame counters < 2^30 in inductive harnesses; i32 frame overflow is outside every claim",
]

BUILDS = {
    "codec": {"files": ["network__compression.rs"], "consts": {}},
}

# per-harness defaults (timeout seconds, memory GB)
HARNESS = {}

def H(name, build, tier="quick", timeout=300, mem=8, **kw):
    d = {"name": name, "build": build, "tier": tier, "timeout": timeout, "mem": mem}
    d.update(kw)
    return d

PROPERTIES = {}
NOT_APPLICABLE = {}
HOOK_COMMITS = []
NOTES = ("Exit codes of bin/check: 0 held, 1 violation (replayed natively), 2 inconclusive (cap hit, vacuous harness, "
         "encoding failed, non-reproducing counterexample) - an inconclusive run is never reported as success. "
         "Scratch copies live under /var/tmp/ggrs-verif.<pid> and are removed on exit.")

import os, re
_HDIR = os.path.join(os.path.dirname(os.path.dirname(os.path.abspath(__file__))), "harness")

def names_in(fname, rx=".*"):
    """All harness names defined in a harness file (direct #[kani::proof] fns and macro instances) matching rx."""
    txt = open(os.path.join(_HDIR, fname)).read()
    names = re.findall(r"#\[kani::proof\][^\n]*\n(?:\s*#\[[^\n]*\n)*\s*fn\s+(\w+)", txt)
    names += [m.group(1) for m in re.finditer(r"^\s*\w+!\(\s*([a-z]_\w+)\s*,", txt, re.M)]
    return [n for n in names if re.fullmatch(rx, n)]

BUILDS["codec"] = {"files": ["network__compression.rs"], "consts": {}}
BUILDS["codec_more"] = {"files": ["network__compression@more.rs"], "consts": {}}

K_QUICK = ([H("k_len_prefix_u16", "codec", mem=4)]
           + [H(n, "codec", mem=4) for n in names_in("network__compression.rs", "k_delta_roundtrip_.*")]
           + [H(n, "codec", mem=4) for n in names_in("network__compression.rs", "k_delta_total_.*")]
           + [H(n, "codec", timeout=600, mem=8) for n in names_in("network__compression.rs", "k_rle_stage_total_len[123]")]
           + [H(n, "codec", timeout=600, mem=8) for n in names_in("network__compression.rs", "k_rle_guard_len[1-5]")])
K_THOROUGH = ([H(n, "codec_more", tier="thorough", mem=4) for n in names_in("network__compression@more.rs")]
              + [H("k_rle_guard_len6", "codec", tier="thorough", timeout=900, mem=8),
                 H("k_rle_roundtrip_len1", "codec", tier="thorough", timeout=1200, mem=16),
                 H("k_rle_roundtrip_len2", "codec", tier="thorough", timeout=2400, mem=24)])

PROPERTIES["C14"] = {
    "level": "model_checking",
    "harnesses": K_QUICK + K_THOROUGH,
    "claim": "Solver-decided (Kani/CBMC) on the real codec code, stage-wise: (1) delta layer round trip delta_decode(r, delta_encode(r, xs)) == xs for every byte value at every enumerated length shape (reference 0..3 bytes, two inputs of 0..3 bytes); (2) delta stage totality and exactness on every length shape of total size <= 5 (quick) / 7 (thorough) bytes incl. truncated prefixes and over-long length claims, all payload bytes symbolic, with re-encoding equal to the input; (3) the real decode()'s RLE stage on every byte string of <= 3 bytes (no panic/overflow/OOB, malformed rejected); (4) the guard in front of bitfield_rle::decode on every byte string of <= 5 (6) bytes: malformed or oversized (> 4x legitimate maximum) streams never reach the allocator; (5) u16 length prefix faithful for all lengths <= 65535; thorough adds the real bitfield-rle encode/decode round trip for every buffer of 1..2 bytes.",
    "note": "bitfield-rle/varinteger are the real crates from the cargo cache; lengths are enumerated shapes up to the stated bound while all byte values are symbolic; stage (3) assumes the well-formed reading decodes to <= 4 bytes (loop bound); the composition encode->decode through the real RLE crate for symbolic content is outside the quick claim (CBMC runs out of memory on symbolic-length heap copies) and rests on stages (1)+(thorough RLE round trip)",
    "bounds": {"delta round trip": "reference <= 3 bytes, 2 inputs <= 3 bytes each (6 shapes)", "delta totality": "all shapes with total size <= 5 (quick) / <= 7 (thorough)",
               "rle stage": "data <= 3 bytes, decoded size <= 4", "rle guard": "data <= 5 bytes (6 thorough)", "unwind": "per harness, with unwinding assertions"},
    "outside": ["inputs longer than 3 bytes in round trips", "whole encode->RLE->decode chain with symbolic content (memory)", "RLE round trip beyond 2 bytes"],
    "assumptions": ["k_rle_stage_total_*: delta stage stubbed (decided separately)", "k_rle_guard_*: bitfield_rle::decode and delta stage stubbed (only the guard is exercised)"],
}


# ------------------------------------------------------------------------------------------------
BUILDS["proto"] = {"files": ["network__protocol.rs", "network__protocol@b.rs"], "consts": {"PENDING_OUTPUT_SIZE": 4}}

U_TIMERS = [H(n, "proto", mem=8) for n in ["u_poll_interrupt_timer", "u_poll_disconnect_timer", "u_poll_both_in_order",
            "u_poll_interrupt_payload_default", "u_poll_interrupt_payload_zero", "u_poll_interrupt_payload_saturating", "u_poll_interrupt_payload_one"]]
U_LIVENESS = [H(n, "proto", mem=8) for n in ["u_foreign_magic_ignored", "u_liveness_and_resume"]]
U_MALFORMED = [H(n, "proto", mem=8) for n in ["u_input_wrong_status_count_dropped", "u_input_negative_start_dropped"]]
U_LOSTACK = [H(n, "proto", mem=8) for n in names_in("network__protocol@b.rs", "u_lost_ack_reply_.*")]
U_STREAM_Q = [H(n, "proto", timeout=600, mem=14) for n in names_in("network__protocol@b.rs", "u_on_input_stream_.*_k1")] + \
             [H("u_on_input_stream_l5_s7_k2", "proto", mem=8), H("u_input_ack_content", "proto", timeout=600, mem=10),
              H("u_ack_releases_prefix", "proto", mem=8), H("u_send_input_packet_shape", "proto", mem=8)]
U_STREAM_T = [H(n, "proto", tier="thorough", timeout=3000, mem=44) for n in
              ["u_on_input_stream_l5_s5_k2", "u_on_input_first_packet_s0", "u_on_input_first_packet_s2"]]

PROPERTIES["C05"] = {
    "level": "model_checking",
    "harnesses": U_LOSTACK + U_STREAM_Q + U_STREAM_T,
    "claim": "TODO",
    "note": "TODO",
}
