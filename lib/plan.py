"""Catalogue: which harnesses decide which property, in which regenerated build, at which tier."""

COMMON_ASSUMPTIONS = [
    "Kani 0.68 / CBMC 6.11 / cadical and the rustc MIR they consume are correct; dev-profile semantics (overflow checks, debug_assert on)",
    "encoding rewrite R1: std HashMap/HashSet/BTreeMap replaced by Vec-backed association lists with the same finite-map semantics (/verif/env/vcoll.rs)",
    "encoding rewrite R2: instant -> virtual millisecond clock, rand -> harness-filled tape, tracing -> no-op macros (arguments checked read-only), parking_lot::Mutex -> RefCell (sequential), anyhow -> zero-sized error",
    "generic instantiation: Config::Input = u8 (bincode size 1), Address = u8, State = u32; predictors PredictRepeatLast and PredictDefault where stated",
    "frame counters < 2^30 in inductive harnesses; i32 frame overflow is outside every claim",
]

BUILDS = {
    "codec": {"files": ["network__compression.rs"], "consts": {}},
}

# per-harness defaults (timeout seconds, memory GB)
HARNESS = {}

def H(name, build, tier="quick", timeout=300, mem=8, **kw):
    d = {"name": name, "build": build, "tier": tier, "timeout": timeout, "mem": mem}
    d.update(kw)
    return d

PROPERTIES = {}
NOT_APPLICABLE = {}
HOOK_COMMITS = []
NOTES = ("Exit codes of bin/check: 0 held, 1 violation (replayed natively), 2 inconclusive (cap hit, vacuous harness, "
         "encoding failed, non-reproducing counterexample) - an inconclusive run is never reported as success. "
         "Scratch copies live under /var/tmp/ggrs-verif.<pid> and are removed on exit.")

PROPERTIES["C14"] = {
    "level": "model_checking",
    "harnesses": [
        H("k_len_prefix_u16", "codec"),
        H("k_delta_roundtrip_r1_a1_b1", "codec"),
        H("k_delta_roundtrip_r1_a2_b0", "codec"),
        H("k_delta_roundtrip_r2_a1_b2", "codec"),
        H("k_delta_roundtrip_r0_a2_b1", "codec"),
        H("k_delta_roundtrip_r2_a0_b2", "codec"),
        H("k_delta_roundtrip_r3_a3_b3", "codec"),
    ],
    "claim": "bounded model checking of the real codec functions: round trip of the delta layer for every byte value at every enumerated length shape, faithfulness of the u16 length prefix",
    "note": "bitfield-rle/varinteger are the real crates; lengths are enumerated shapes up to the stated bound, byte values symbolic",
    "bounds": {},
    "outside": [],
    "assumptions": [],
}
