"""Regenerate the Kani encoding of ggrs from /repo's current working tree (DESIGN.md section 3).

build_scratch(dest, harness_files, consts, cfgs) creates <dest>/ggrs, a crate that is /repo/src plus
  R1  std HashMap/HashSet/BTreeMap imports redirected to crate::vcoll (association lists),
  R2  instant/rand/tracing/parking_lot path-swapped to the stand-ins in /verif/env, anyhow patched,
  R3  optional size-constant rewrites (one anchored line each),
  R4  harness modules appended to the matching source files (cfg(kani) child modules).
Nothing under /repo is modified.  Any anchor that is missing raises EncodingError (exit 2 upstream).
"""
import os, re, shutil, subprocess, sys

REPO = os.environ.get("VERIF_REPO", "/repo")
VERIF = os.path.dirname(os.path.dirname(os.path.abspath(__file__)))
ENV = os.path.join(VERIF, "env")
HARN = os.path.join(VERIF, "harness")

MODEL_NAMES = {"HashMap", "HashSet", "BTreeMap"}

# name -> (file, regex with one group for the number)
CONST_ANCHORS = {
    "INPUT_QUEUE_LENGTH": ("src/input_queue.rs", r"(const INPUT_QUEUE_LENGTH: usize = )(\d+)(;)"),
    "SPECTATOR_BUFFER_SIZE": ("src/sessions/builder.rs", r"(pub\(crate\) const SPECTATOR_BUFFER_SIZE: usize = )(\d+)(;)"),
    "MAX_EVENT_QUEUE_SIZE": ("src/sessions/builder.rs", r"(pub\(crate\) const MAX_EVENT_QUEUE_SIZE: usize = )(\d+)(;)"),
    "PENDING_OUTPUT_SIZE": ("src/network/protocol.rs", r"(const PENDING_OUTPUT_SIZE: usize = )(\d+)(;)"),
    "MAX_CHECKSUM_HISTORY_SIZE": ("src/network/protocol.rs", r"(pub const MAX_CHECKSUM_HISTORY_SIZE: usize = )(\d+)(;)"),
    "FRAME_WINDOW_SIZE": ("src/time_sync.rs", r"(const FRAME_WINDOW_SIZE: usize = )(\d+)(;)"),
    # capacity of the container model (not a ggrs constant): entries per map/set
    "VCOLL_CAP": ("src/vcoll.rs", r"(pub const CAP: usize = )(\d+)(;)"),
}


class EncodingError(Exception):
    pass


def _rewrite_collections(text, path):
    """R1: redirect the modelled container names of every `use std::collections::...` line."""
    out = []
    n = 0
    for line in text.split("\n"):
        m = re.match(r"^(\s*)use std::collections::\{([^}]*)\};\s*$", line)
        m1 = re.match(r"^(\s*)use std::collections::(\w+);\s*$", line)
        if m:
            names = [x.strip() for x in m.group(2).split(",") if x.strip()]
            model = [x for x in names if x in MODEL_NAMES]
            rest = [x for x in names if x not in MODEL_NAMES]
            if model:
                n += 1
                if rest:
                    out.append("%suse std::collections::{%s};" % (m.group(1), ", ".join(rest)))
                out.append("%suse crate::vcoll::{%s};" % (m.group(1), ", ".join(model)))
                continue
        elif m1 and m1.group(2) in MODEL_NAMES:
            n += 1
            out.append("%suse crate::vcoll::%s;" % (m1.group(1), m1.group(2)))
            continue
        out.append(line)
    text = "\n".join(out)
    # fully-qualified uses would escape the redirect: refuse rather than mis-encode
    body = text.split("#[cfg(test)]")[0]
    if re.search(r"std::collections::(HashMap|HashSet|BTreeMap|hash_map|btree_map|hash_set)", body):
        raise EncodingError("R1: fully qualified std map/set use in %s; container model not applied" % path)
    return text, n


_LOG_MACROS = ("trace", "debug", "info", "warn", "error")
_MUTATING = re.compile(
    r"\.(push|push_back|push_front|insert|remove|remove_entry|pop|pop_front|pop_back|drain|clear|retain|"
    r"truncate|append|extend|take|replace|swap|add_input|advance_frame)\s*\(|self\.[a-z_\.\[\]0-9]+\s*(\+|-)?=[^=]")


def _check_logging_args(text, path):
    """R2 side condition: tracing macros become no-ops, so their arguments must be read-only."""
    body = text.split("#[cfg(test)]")[0]
    for mac in _LOG_MACROS:
        for m in re.finditer(r"\b%s!\s*\(" % mac, body):
            i = m.end()
            depth = 1
            while i < len(body) and depth:
                c = body[i]
                depth += c == "("
                depth -= c == ")"
                i += 1
            args = body[m.end():i - 1]
            if _MUTATING.search(args):
                raise EncodingError("R2: %s! argument in %s may have side effects: %r" % (mac, path, args[:80]))


def _manifest(tv=False):
    src = open(os.path.join(REPO, "Cargo.toml")).read()
    swaps = {"parking_lot": "mock_parking_lot"} if tv else {
        "rand": "mock_rand", "parking_lot": "mock_parking_lot", "instant": "mock_instant", "tracing": "mock_tracing"}
    out = []
    seen = set()
    skip = False
    for line in src.split("\n"):
        s = line.strip()
        if s.startswith("["):
            skip = (not tv) and (s.startswith("[dev-dependencies") or s.startswith("[[example"))
        if skip:
            continue
        m = re.match(r"^(\w[\w-]*)\s*=", line)
        if m and m.group(1) in swaps:
            seen.add(m.group(1))
            feat = ""
            out.append('%s = { path = "%s"%s }' % (m.group(1), os.path.join(ENV, swaps[m.group(1)]), feat))
            continue
        out.append(line)
    missing = set(swaps) - seen
    if missing:
        raise EncodingError("R2: dependency line(s) not found in Cargo.toml: %s" % sorted(missing))
    out.append("")
    out.append("[patch.crates-io]")
    out.append('anyhow = { path = "%s" }' % os.path.join(ENV, "mock_anyhow"))
    out.append("")
    out.append("[workspace]")
    out.append("")
    out.append("[lints.rust]")
    out.append('unexpected_cfgs = { level = "allow" }')
    return "\n".join(out) + "\n"


def build_scratch(dest, harness_files=(), consts=None, tv=False):
    """Create <dest>/ggrs from the current /repo tree. Returns a dict describing what was done."""
    consts = consts or {}
    crate = os.path.join(dest, "ggrs")
    if os.path.exists(crate):
        shutil.rmtree(crate)
    os.makedirs(crate)
    shutil.copytree(os.path.join(REPO, "src"), os.path.join(crate, "src"))
    if tv:
        shutil.copytree(os.path.join(REPO, "tests"), os.path.join(crate, "tests"))
        if os.path.isdir(os.path.join(REPO, "examples")):
            shutil.copytree(os.path.join(REPO, "examples"), os.path.join(crate, "examples"))
    shutil.copy(os.path.join(REPO, "Cargo.lock"), os.path.join(crate, "Cargo.lock"))
    for extra in ("README.md",):
        p = os.path.join(REPO, extra)
        if os.path.exists(p):
            shutil.copy(p, os.path.join(crate, extra))
    open(os.path.join(crate, "Cargo.toml"), "w").write(_manifest(tv))
    os.makedirs(os.path.join(crate, ".cargo"), exist_ok=True)
    open(os.path.join(crate, ".cargo", "config.toml"), "w").write("[net]\noffline = true\n")

    info = {"r1_rewrites": 0, "consts": {}, "harness_files": [], "src_files": []}
    srcroot = os.path.join(crate, "src")
    for root, _, files in os.walk(srcroot):
        for f in files:
            if not f.endswith(".rs"):
                continue
            p = os.path.join(root, f)
            rel = os.path.relpath(p, crate)
            text = open(p).read()
            text, n = _rewrite_collections(text, rel)
            info["r1_rewrites"] += n
            if not tv:
                _check_logging_args(text, rel)
            open(p, "w").write(text)
            info["src_files"].append(rel)
    if info["r1_rewrites"] == 0:
        raise EncodingError("R1: no std::collections import found to redirect (source layout changed?)")

    # vcoll module
    shutil.copy(os.path.join(ENV, "vcoll.rs"), os.path.join(srcroot, "vcoll.rs"))
    libp = os.path.join(srcroot, "lib.rs")
    lib = open(libp).read()
    anchor = "pub(crate) mod error;"
    if anchor not in lib:
        raise EncodingError("R1: anchor %r not found in src/lib.rs" % anchor)
    inject = "pub(crate) mod vcoll;\n"
    if not tv:
        inject += "#[cfg(kani)]\npub(crate) mod verif_common;\n"
        shutil.copy(os.path.join(HARN, "verif_common.rs"), os.path.join(srcroot, "verif_common.rs"))
    lib = lib.replace(anchor, inject + anchor, 1)
    open(libp, "w").write(lib)

    if consts.get("CFG_vcoll_hideniche"):
        # the niche-hiding slot array of the container model needs three `unsafe` blocks (MaybeUninit): the crate-wide
        # forbid becomes a deny (ggrs and harness code stay unsafe-free: deny still rejects it there), vcoll opts out.
        lib = open(libp).read()
        if "#![forbid(unsafe_code)]" not in lib:
            raise EncodingError("R1: anchor '#![forbid(unsafe_code)]' not found in src/lib.rs")
        open(libp, "w").write(lib.replace("#![forbid(unsafe_code)]", "#![deny(unsafe_code)]", 1))
    # encoding switches (cfg names of the container model / harnesses), forced on by text substitution
    # because cargo-kani owns RUSTFLAGS: consts {"CFG_<name>": 1}
    for name in [n for n in consts if n.startswith("CFG_")]:
        cfgname = name[4:]
        hits = 0
        for root, _, files in os.walk(srcroot):
            for f in files:
                if f.endswith(".rs"):
                    pth = os.path.join(root, f)
                    t = open(pth).read()
                    # inside every cfg(...) attribute the switch name becomes the always-true predicate all()
                    t2 = "\n".join(re.sub(r"\b%s\b" % cfgname, "all()", l) if re.search(r"cfg\(", l) else l
                                    for l in t.split("\n"))
                    if t2 != t:
                        hits += 1
                        open(pth, "w").write(t2)
        if not hits:
            raise EncodingError("switch %s not found in the encoding" % cfgname)
        info["consts"][name] = {"original": 0, "encoded": 1}
    # R5 layout-only rewrite: explicit u8 tag for GgrsError (Kani 0.68 crashes on the niche-encoded discriminant of
    # Result<Session, GgrsError>; repr(u8) changes the memory layout only, never the meaning of any operation)
    if consts.get("REPR_U8_ERROR"):
        p = os.path.join(crate, "src", "error.rs")
        text = open(p).read()
        if "\npub enum GgrsError {" not in text:
            raise EncodingError("R5: anchor 'pub enum GgrsError {' not found in src/error.rs")
        text = text.replace("\npub enum GgrsError {", "\n#[repr(u8)]\npub enum GgrsError {", 1)
        open(p, "w").write(text)
        info["consts"]["REPR_U8_ERROR"] = {"original": 0, "encoded": 1}
    # R3 constants
    for name, val in consts.items():
        if name.startswith("CFG_") or name == "REPR_U8_ERROR":
            continue
        if name not in CONST_ANCHORS:
            raise EncodingError("R3: unknown constant %s" % name)
        rel, rx = CONST_ANCHORS[name]
        p = os.path.join(crate, rel)
        text = open(p).read()
        m = re.search(rx, text)
        if not m:
            raise EncodingError("R3: anchor for %s not found in %s" % (name, rel))
        info["consts"][name] = {"original": int(m.group(2)), "encoded": int(val)}
        text = text[:m.start()] + m.group(1) + str(int(val)) + m.group(3) + text[m.end():]
        open(p, "w").write(text)

    # R4 harness injection: harness/<a>__<b>.rs is appended to src/<a>/<b>.rs
    for hf in harness_files:
        base = os.path.basename(hf)
        if base == "verif_common.rs":
            continue
        # a harness file may carry a suffix after '@' to allow several files per module
        modpart = base[:-3].split("@")[0]
        rel = os.path.join("src", *modpart.split("__")) + ".rs"
        p = os.path.join(crate, rel)
        if not os.path.exists(p):
            raise EncodingError("R4: target module %s for harness %s does not exist" % (rel, base))
        with open(p, "a") as f:
            f.write("\n\n// ===== verification harness injected from /verif/harness/%s =====\n" % base)
            f.write(open(os.path.join(HARN, base)).read())
        info["harness_files"].append(base)
    return info


def repo_fingerprint():
    """sha of HEAD plus a hash of the working-tree diff, recorded in the evidence."""
    try:
        head = subprocess.run(["git", "-C", REPO, "rev-parse", "HEAD"], capture_output=True, text=True).stdout.strip()
        diff = subprocess.run(["git", "-C", REPO, "diff", "HEAD", "--", "src", "Cargo.toml"], capture_output=True).stdout
        import hashlib
        return {"head": head, "worktree_diff_sha1": hashlib.sha1(diff).hexdigest(), "dirty": bool(diff)}
    except Exception as e:  # pragma: no cover
        return {"error": str(e)}


if __name__ == "__main__":
    dest = sys.argv[1]
    files = sys.argv[2:]
    print(build_scratch(dest, files))
